"""Reference model of result retention in a dataflow scheduler.

Independent of dask.local's bookkeeping: it is driven only by "task finished"
events and the dependency relation of the graph the scheduler was given.
It answers two questions after every event:
  must_hold()   results that have to be available (a needed, unfinished task
                depends on them, or they were requested)
  may_release() results that nobody needs any more
"""
from __future__ import annotations


class RefModel:
    def __init__(self, deps, requested):
        self.deps = {k: set(v) for k, v in deps.items()}
        self.requested = set(requested)
        need = set()
        stack = list(self.requested)
        while stack:
            k = stack.pop()
            if k in need:
                continue
            need.add(k)
            stack.extend(self.deps.get(k, ()))
        self.needed = need
        self.waiters = {k: set() for k in need}
        for k in need:
            for d in self.deps.get(k, ()):
                self.waiters[d].add(k)
        self.available = set()   # results produced so far (incl. data nodes)

    def produce(self, key):
        """key's result exists now (task finished or data node loaded)."""
        self.available.add(key)

    def finish(self, key):
        self.available.add(key)
        for d in self.deps.get(key, ()):
            self.waiters[d].discard(key)

    def must_hold(self):
        # keys outside the needed set (e.g. entries a caller pre-seeded into cache=) constrain nothing
        return {k for k in self.available
                if k in self.requested or self.waiters.get(k)}

    def may_release(self):
        return {k for k in self.available
                if k not in self.requested and not self.waiters.get(k)}

"""Reference model of dask.config's nested, spelling-insensitive mapping.

Written from the documentation: a key component matches an existing entry under
either its hyphen or underscore spelling (whichever exists is canonical); a
dotted path creates intermediate dicts; assigning through a non-mapping fails.
"""
from __future__ import annotations

import copy


class SetFails(Exception):
    pass


def alt(k):
    return k.replace("_", "-") if "_" in k else k.replace("-", "_")


def canon(k, d):
    if k in d:
        return k
    a = alt(k)
    if a in d:
        return a
    return k


def model_assign(cfg, path, value):
    d = cfg
    for comp in path[:-1]:
        if not isinstance(d, dict):
            raise SetFails(path)
        k = canon(comp, d)
        if k not in d:
            d[k] = {}
        d = d[k]
    if not isinstance(d, dict):
        raise SetFails(path)
    d[canon(path[-1], d)] = value


def model_set(cfg, items):
    """Apply items [(dotted key, value)] in order to a deep copy; returns the new
    config, or raises SetFails (in which case cfg must stay as it was)."""
    new = copy.deepcopy(cfg)
    for key, value in items:
        model_assign(new, key.split("."), copy.deepcopy(value))
    return new


MISSING = object()


def model_get(cfg, key):
    d = cfg
    for comp in key.split("."):
        if not isinstance(d, dict):
            return MISSING
        k = canon(comp, d)
        if k not in d:
            return MISSING
        d = d[k]
    return d


def model_update(old, new, priority="new"):
    """Documented semantics of dask.config.update (returns a new dict)."""
    old = copy.deepcopy(old)

    def rec(o, n):
        for k, v in n.items():
            k = canon(k, o)
            if isinstance(v, dict):
                if k not in o or not isinstance(o[k], dict):
                    o[k] = {}
                rec(o[k], v)
            elif priority == "new" or k not in o:
                o[k] = copy.deepcopy(v)

    rec(old, new)
    return old


def model_merge(dicts):
    res = {}
    for d in dicts:
        res = model_update(res, d)
    return res

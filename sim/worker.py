"""Worker process: runs seeds of one check, shrinks and records violations.

Started by sim.driver in a fresh interpreter with a pinned PYTHONHASHSEED.
"""
from __future__ import annotations

import faulthandler
import gc
import importlib
import json
import os
import sys
import time
import traceback

from sim import pin
from sim.core import Outcome, jsonable
from sim.tape import Tape, derive_seed, shrink


def _pair(wd, d):
    a = int(wd or "0", 16)
    b = int(d or "0", 16)
    return (a * 0x9E3779B97F4A7C15 + b) & 0x7FFFFFFFFFFFFFFF


def load_check(pid):
    mod = importlib.import_module(f"checks.{pid.lower()}")
    return mod


def load_known(pid):
    p = os.path.join(pin.VERIF_DIR, "known_findings.json")
    try:
        with open(p) as f:
            data = json.load(f)
    except FileNotFoundError:
        return []
    return [e for e in data.get("findings", [])
            if e.get("property") == pid and e.get("status") == "open"]


def match_known(known, details):
    for e in known:
        m = e.get("match", {})
        if m and all(details.get(k) == v for k, v in m.items()):
            return e
    return None


def run_tape(mod, cfg, tape):
    """One run: pure function of the tape (and the code under test)."""
    seed_for_entropy = tape.seed if tape.seed is not None else cfg.get("replay_seed", 0)
    pin.reseed(seed_for_entropy)
    if getattr(mod, "GC_EACH_RUN", False):
        # Collections: expression objects of earlier runs (kept alive by reference cycles while
        # the cyclic GC is disabled) sit in dask's weak singleton cache and carry cached layers;
        # a later run with equal names would reuse them and draw fewer uuids than a cold
        # interpreter.  Collect them so that every run starts like the first one of a process.
        pin.collect_garbage()
    snap = pin.snapshot_globals()
    try:
        out = mod.run_one(tape, cfg)
    except pin.HarnessError:
        raise
    except Exception as e:  # noqa: BLE001
        # An exception that escaped a check.  If it was raised by code of the repository under
        # test (innermost frame in /repo) the run is a violation with a replay file, not a harness
        # error: a check must say VIOLATION when dask breaks in a way it did not anticipate.
        tb = e.__traceback__
        while tb is not None and tb.tb_next is not None:
            tb = tb.tb_next
        fn = tb.tb_frame.f_code.co_filename if tb is not None else ""
        if not os.path.abspath(fn).startswith(os.path.abspath(pin.REPO) + os.sep):
            raise
        out = Outcome()
        out.violate("dask_raised_unexpectedly",
                    f"{type(e).__name__} at {os.path.relpath(fn, pin.REPO)}:{tb.tb_lineno}: {str(e)[:300]}",
                    exc_type=type(e).__name__)
    finally:
        drift = pin.restore_globals(snap)
    if drift and out.status == "ok" and not getattr(mod, "OWNS_GLOBALS", False):
        raise pin.HarnessError(f"global state drifted during run: {drift}")
    if not isinstance(out, Outcome):
        raise pin.HarnessError("run_one did not return an Outcome")
    return out


def do_replay(mod, cfg, rf):
    tape = Tape(seed=None, replay=rf["tape"])
    cfg = dict(cfg)
    cfg.update(rf.get("cfg", {}))
    cfg["replay_seed"] = rf["seed"]
    tape.seed = rf["seed"]
    return run_tape(mod, cfg, tape)


def same_violation(a_details, out, known):
    if out.status != "violation":
        return False
    if out.oracle != a_details.get("oracle"):
        return False
    # keep the failure class: same exception type if one is part of it
    if a_details.get("exc_type") != out.details.get("exc_type"):
        return False
    if match_known(known, out.details) is not None:
        return False
    return True


def shrink_violation(mod, cfg, seed, tape, out, known, budget_s):
    details = dict(out.details)

    def still_fails(values):
        t = Tape(seed=None, replay=values)
        t.seed = seed
        c = dict(cfg)
        c["replay_seed"] = seed
        try:
            o = run_tape(mod, c, t)
        except pin.HarnessError:
            return False, values, []
        return same_violation(details, o, known), t.values, t.spans

    best, runs = shrink(tape.values, tape.spans, still_fails,
                        max_runs=cfg.get("shrink_runs", 500), max_seconds=budget_s)
    t = Tape(seed=None, replay=best)
    t.seed = seed
    c = dict(cfg)
    c["replay_seed"] = seed
    final = run_tape(mod, c, t)
    if not same_violation(details, final, known):
        # fall back to the unshrunk tape
        t = Tape(seed=None, replay=tape.values)
        t.seed = seed
        final = run_tape(mod, c, t)
        best = list(tape.values)
    return best, final, runs


def worker_main(args):
    pid = args["property"]
    faulthandler.enable()
    faulthandler.dump_traceback_later(args.get("hard_timeout", 900), exit=True)
    mod = load_check(pid)
    cfg = dict(mod.tier_cfg(args["tier"]))
    cfg["tier"] = args["tier"]
    cfg["hashseed"] = os.environ.get("PYTHONHASHSEED", "")
    if hasattr(mod, "setup"):
        mod.setup(cfg)
    known = load_known(pid)
    res = {
        "worker": args["worker"], "evaluations": 0, "violations": [], "known_hits": {},
        "probes": {}, "faults": {}, "policies": {}, "classes": {}, "info": {},
        "digests": [], "nontrivial_digests": [], "abstract": [], "samples": [],
        "sim_time": 0.0, "seeds": [], "harness_error": None, "discards": 0,
    }
    digests, nontriv, abstract = set(), set(), set()
    t0 = time.monotonic()
    budget = args["budget_s"]
    max_runs = args["max_runs"]
    i = 0
    try:
        while i < max_runs and time.monotonic() - t0 < budget:
            seed = derive_seed(args["base_seed"], pid, args["worker"], i)
            i += 1
            if i % 20 == 0 and not getattr(mod, "GC_EACH_RUN", False):
                # the cyclic GC is disabled while runs execute (sim/pin); reclaim the cycles of
                # earlier runs between runs so that long (thorough) batches do not grow without bound
                gc.collect()
            tape = Tape(seed)
            out = run_tape(mod, cfg, tape)
            res["evaluations"] += 1
            if i <= 3:
                res["seeds"].append(seed)
            if out.status == "discard":
                res["discards"] += 1
                continue
            pair = _pair(out.wdigest, out.digest)
            digests.add(pair)
            if out.nontrivial:
                nontriv.add(pair)
            for k, v in out.probes.items():
                res["probes"][k] = res["probes"].get(k, 0) + v
            for k, v in out.faults.items():
                res["faults"][k] = res["faults"].get(k, 0) + v
            for k, v in out.info.items():
                res["info"][k] = res["info"].get(k, 0) + v
            res["policies"][out.policy] = res["policies"].get(out.policy, 0) + 1
            res["classes"][out.klass] = res["classes"].get(out.klass, 0) + 1
            abstract.update(out.abstract)
            res["sim_time"] += out.sim_time
            if len(res["samples"]) < 2 and out.nontrivial and out.decoded is not None:
                res["samples"].append(jsonable({"seed": seed, "decoded": out.decoded,
                                                "events": out.digest}))
            if out.status == "violation":
                kf = match_known(known, out.details)
                if kf is not None:
                    res["known_hits"][kf["id"]] = res["known_hits"].get(kf["id"], 0) + 1
                    continue
                best, final, sruns = shrink_violation(
                    mod, cfg, seed, tape, out, known, args.get("shrink_s", 40))
                rf = {
                    "property": pid, "seed": seed, "hashseed": cfg["hashseed"],
                    "tier": args["tier"], "cfg": {k: v for k, v in cfg.items()
                                                  if isinstance(v, (int, str, float, bool, list))},
                    "tape": best, "original_tape_len": len(tape.values),
                    "shrink_runs": sruns,
                    "oracle": final.oracle, "message": final.message,
                    "details": jsonable(final.details),
                    "decoded": jsonable(final.decoded),
                    "event_log_digest": final.digest,
                    # enough to re-execute this worker's whole sequence of runs up to this one (used when
                    # the violation depends on state that earlier runs left in the process)
                    "history": {"base_seed": args["base_seed"], "worker": args["worker"], "index": i - 1,
                                "oracle_unshrunk": out.oracle, "digest_unshrunk": out.digest},
                }
                # VERIF_OUT_DIR: self-tests against scratch copies keep their files out of /verif
                rdir = os.path.join(os.environ.get("VERIF_OUT_DIR") or pin.VERIF_DIR, "replays")
                os.makedirs(rdir, exist_ok=True)
                path = os.path.join(rdir, f"{pid}-{seed}.json")
                with open(path, "w") as f:
                    json.dump(rf, f, indent=1)
                res["violations"].append({"seed": seed, "replay": path,
                                          "oracle": final.oracle,
                                          "message": final.message})
                break
    except pin.HarnessError as e:
        res["harness_error"] = f"HarnessError: {e}\n{traceback.format_exc()}"
    except BaseException as e:  # noqa: BLE001
        res["harness_error"] = f"{type(e).__name__}: {e}\n{traceback.format_exc()}"
    res["wall_s"] = time.monotonic() - t0
    res["digests"] = sorted(digests)
    res["nontrivial_digests"] = sorted(nontriv)
    res["abstract"] = sorted(repr(a) for a in abstract)
    faulthandler.cancel_dump_traceback_later()
    with open(args["out"], "w") as f:
        json.dump(res, f)


def digests_main(args):
    """Determinism self-test helper: run seeds [lo, hi) and dump their digests."""
    pid = args["property"]
    mod = load_check(pid)
    cfg = dict(mod.tier_cfg(args["tier"]))
    cfg["tier"] = args["tier"]
    cfg["hashseed"] = os.environ.get("PYTHONHASHSEED", "")
    if hasattr(mod, "setup"):
        mod.setup(cfg)
    rows = []
    for i in range(args["lo"], args["hi"]):
        seed = derive_seed(args["base_seed"], pid, "det", i)
        tape = Tape(seed)
        out = run_tape(mod, cfg, tape)
        rows.append([seed, out.status, out.oracle, out.digest, out.wdigest, len(tape.values)])
    # warm re-run: the first seeds again, after everything else ran in this process (what the
    # shrinker does all the time); must give the same rows
    for row in rows[: min(10, len(rows))]:
        tape = Tape(row[0])
        out = run_tape(mod, cfg, tape)
        again = [row[0], out.status, out.oracle, out.digest, out.wdigest, len(tape.values)]
        if again != row:
            rows.append(["RERUN-DIFF", row, again])
    with open(args["out"], "w") as f:
        json.dump(rows, f)


def replay_main(args):
    """Re-execute a replay file; print one JSON line with what happened."""
    with open(args["replay"]) as f:
        rf = json.load(f)
    pid = rf["property"]
    mod = load_check(pid)
    cfg = dict(mod.tier_cfg(rf.get("tier", "quick")))
    cfg["tier"] = rf.get("tier", "quick")
    cfg["hashseed"] = os.environ.get("PYTHONHASHSEED", "")
    if hasattr(mod, "setup"):
        mod.setup(cfg)
    if args.get("with_history") or rf.get("needs_history"):
        # the violation depends on what earlier runs of the same worker left behind in the process
        # (a cache of the code under test, say): re-execute that worker's runs 0..index, unshrunk
        h = rf["history"]
        out = None
        for j in range(h["index"] + 1):
            if j and (j + 1) % 20 == 0 and not getattr(mod, "GC_EACH_RUN", False):
                gc.collect()
            out = run_tape(mod, cfg, Tape(derive_seed(h["base_seed"], pid, h["worker"], j)))
    else:
        out = do_replay(mod, cfg, rf)
    known = load_known(pid)
    kf = match_known(known, out.details) if out.status == "violation" else None
    print("REPLAY-RESULT " + json.dumps({
        "status": out.status, "oracle": out.oracle, "message": out.message,
        "digest": out.digest, "known": kf["id"] if kf else None,
        "details": jsonable(out.details),
    }))
    return out


if __name__ == "__main__":  # pragma: no cover
    raise SystemExit("use /verif/check")

"""Threaded slice (engine E2) of the scheduler checks: 1-3 simulated client
threads call the real dask.threaded.get concurrently, on a shared SimThreadPool
(pool=) or on per-thread pools created by threaded.get itself (its pool class is
replaced by the simulated pool, so the real per-thread pool bookkeeping runs).
Task bodies are pre-emptible at their start and end."""
from __future__ import annotations

from types import SimpleNamespace

from sim import graphgen as gg
from sim import taskfns
from sim.schedrun import Obs, Recorder
from sim.simthreads import SimAbort, SimThreadPool, SimThreads, cur, yield_now


def gen_threads_cfg(tape):
    with tape.span("tcfg"):
        return {
            "nclients": 1 + tape.draw(3, "nclients"),
            "pool_mode": ("shared", "own")[tape.draw(2, "poolmode")],
            "num_workers": 1 + tape.draw(5, "nw"),
            "policy": tape.choice(SimThreads.POLICIES, "tpolicy"),
            "chunksize": (None, 1, 2, -1)[tape.draw(4, "chunk")],
        }


def run_threads(tape, spec, clients, tcfg):
    """clients: [{"request": real request, "fail": {tag2: kind} or None}] -> [Obs]"""
    import dask.threaded as dt

    n = len(clients)
    taskfns.reset()
    logs = [[] for _ in range(n)]
    fails = [dict(c.get("fail") or {}) for c in clients]
    sched = SimThreads(tape, policy=tcfg["policy"], step_cap=40000)
    owner_index = {}
    pools = []

    def router():
        me = cur()
        owner = me.serving if me is not None and me.serving is not None else me
        i = owner_index.get(owner, 0)
        return logs[i], fails[i]

    def on_call(tag, phase):
        yield_now("task." + phase)

    taskfns.RUN["router"] = router
    taskfns.RUN["on_call"] = on_call
    obs_list = []
    saved_cls = dt.ContextAwareThreadPoolExecutor

    def make_pool(nw=None):
        p = SimThreadPool(sched, nw or 4)
        pools.append(p)
        return p

    dt.ContextAwareThreadPoolExecutor = make_pool
    shared = None
    try:
        with sched:
            if tcfg["pool_mode"] == "shared":
                shared = make_pool(tcfg["num_workers"])
            sts = []
            for i, c in enumerate(clients):
                obs = Obs()
                obs.value = obs.exc = None
                obs.log = logs[i]
                obs.dsk = gg.build(spec)
                obs.rec = Recorder(logs[i], set(gg.flatten_request(c["request"])))
                obs_list.append(obs)

                def client(i=i, c=c, obs=obs):
                    kw = {"callbacks": [obs.rec.tuple()]}
                    if tcfg["chunksize"] is not None:
                        kw["chunksize"] = tcfg["chunksize"]
                    if shared is not None:
                        kw["pool"] = shared
                    else:
                        kw["num_workers"] = tcfg["num_workers"] + (i % 2)
                    try:
                        obs.value = dt.get(obs.dsk, c["request"], **kw)
                    except SimAbort:
                        raise
                    except BaseException as e:  # noqa: BLE001
                        obs.exc = e

                st = sched.spawn(client, name=f"client{i}")
                owner_index[st] = i
                sts.append(st)
            taskfns.RUN["active"] = True
            res = sched.run()
            taskfns.RUN["active"] = False
    finally:
        taskfns.RUN["active"] = False
        taskfns.RUN["router"] = None
        taskfns.RUN["on_call"] = None
        dt.ContextAwareThreadPoolExecutor = saved_cls
        dt.pools.clear()
    maxq = max([p.max_queued for p in pools] or [0])
    par = sched.probes.get("parallel_items", 0)
    for i, obs in enumerate(obs_list):
        obs.sim = SimpleNamespace(
            digest=sched.digest, max_open=maxq, events=sched.steps, jobs=[None] * maxq,
            fired={}, probes=dict(sched.probes), max_conc=max([p.max_running for p in pools] or [0]))
        obs.threads_result = res
        obs.parallel_items = par
        if res != "ok" and obs.exc is None and obs.value is None:
            from sim.simexec import SimDeadlock, SimHang

            obs.exc = (SimDeadlock(f"simulated threads deadlocked: {sched.deadlock}")
                       if res == "deadlock" else SimHang("step cap exceeded (threads)"))
    return obs_list, sched

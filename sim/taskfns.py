"""Importable, instrumented task functions (pickled by reference) + run log.

The value function is deliberately sensitive to the identity, order and
structure of its arguments, returns values of several shapes (including
strings/tuples equal to graph keys), and is shared by the real execution and
by the harness's own reference evaluator.
"""
from __future__ import annotations

import zlib
from functools import partial

RUN = {
    "active": False,   # log only while a simulated run is active
    "log": [],         # (what, tag, ...) entries
    "fail": {},        # tag -> exception kind
    "on_call": None,   # optional hook(tag, phase) -> used as yield point by E2
    "router": None,    # optional () -> (log, fail) of the scheduler call the current thread serves
}


def reset():
    RUN["active"] = False
    RUN["log"] = []
    RUN["fail"] = {}
    RUN["on_call"] = None
    RUN["router"] = None


def norm(x):
    if isinstance(x, dict):
        return ("D", tuple(sorted((repr(k), norm(v)) for k, v in x.items())))
    if isinstance(x, list):
        return ("L", tuple(norm(i) for i in x))
    if isinstance(x, tuple):
        return ("T", tuple(norm(i) for i in x))
    if isinstance(x, (set, frozenset)):
        return ("S", tuple(sorted(repr(norm(i)) for i in x)))
    return x


def compute_value(tag, args, kwargs):
    """Pure: the value node `tag` denotes, given evaluated arguments."""
    h = zlib.crc32(repr(norm((tag[0], tag[1], list(args), dict(kwargs)))).encode())
    shape = tag[2]
    if shape == 0:
        return h
    if shape == 1:
        return f"s{h % 100000}"
    if shape == 2:
        return (h % 9973, "t")
    if shape == 3:
        return [h % 8999, h % 7]
    if shape == 4:
        return {"k": h % 8123}
    if shape == 5:  # a value that looks like a graph key
        return tag[3]
    if shape == 6:
        return None
    if shape == 7:  # a value that looks like a legacy task
        return (len, f"abc{h % 7}")
    if shape == 8:  # a list holding a key-like value
        return [tag[3], h % 5]
    return h


# ---- exception kinds for fault injection ------------------------------------


class CustomError(Exception):
    def __init__(self, msg, extra=None):
        super().__init__(msg)
        self.extra = extra


class CustomBase(BaseException):
    pass


class Unpicklable(Exception):
    """An exception whose pickling fails."""

    def __reduce__(self):
        raise TypeError("cannot pickle 'Unpicklable' object")


EXC_KINDS = ("ValueError", "CustomError", "KeyboardInterrupt", "SystemExit",
             "CustomBase", "MemoryError", "Unpicklable", "KeyError", "OSError", "StopIteration",
             "GeneratorExit")


def make_exc(kind, msg):
    if kind == "ValueError":
        return ValueError(msg)
    if kind == "CustomError":
        return CustomError(msg, extra=42)
    if kind == "KeyboardInterrupt":
        return KeyboardInterrupt(msg)
    if kind == "SystemExit":
        return SystemExit(msg)
    if kind == "CustomBase":
        return CustomBase(msg)
    if kind == "MemoryError":
        return MemoryError(msg)
    if kind == "Unpicklable":
        return Unpicklable(msg)
    if kind == "KeyError":
        return KeyError(msg)
    if kind == "OSError":
        return OSError(5, msg)
    if kind == "StopIteration":
        return StopIteration(msg)
    if kind == "GeneratorExit":
        return GeneratorExit(msg)
    raise AssertionError(kind)


EXC_TYPES = {
    "ValueError": ValueError, "CustomError": CustomError,
    "KeyboardInterrupt": KeyboardInterrupt, "SystemExit": SystemExit,
    "CustomBase": CustomBase, "MemoryError": MemoryError,
    "Unpicklable": Unpicklable, "KeyError": KeyError, "OSError": OSError,
    "StopIteration": StopIteration, "GeneratorExit": GeneratorExit,
}


def call(tag, *args, **kwargs):
    """The task body of node `tag`."""
    run = RUN
    if run["active"]:
        router = run.get("router")
        # E2: several concurrent scheduler calls -> one log (and fault plan) per owner
        log, fail = (run["log"], run["fail"]) if router is None else router()
        log.append(("start", tag[:2], norm(list(args)), norm(dict(kwargs))))
        hook = run["on_call"]
        if hook is not None:
            hook(tag, "start")
        kind = fail.get(tag[:2])
        if kind is not None:
            log.append(("raise", tag[:2], kind))
            raise make_exc(kind, f"boom-{tag[0]}-{tag[1]}")
    val = compute_value(tag, args, kwargs)
    if run["active"]:
        hook = run["on_call"]
        if hook is not None:
            hook(tag, "end")
        log.append(("end", tag[:2]))
    return val


_F_CACHE: dict = {}


def F(tag):
    """The task function of node `tag`.  One object per tag for the life of the process, so that
    equal legacy tasks of different graphs (same tag, same arguments) are equal tuples -- as they
    are for ordinary module-level functions."""
    try:
        return _F_CACHE[tag]
    except KeyError:
        return _F_CACHE.setdefault(tag, partial(call, tag))


# ---- instrumented chunk functions for collection-level checks (C16) ----------

BUMP = {"P": 1, "C": 10, "O": 100, "D": 1000, "X": 7, "Y": 9}


def mark(tag, x, *more):
    """Chunk function tagged `tag`: logs start/end (only while a run is active —
    map_blocks also calls it at graph-construction time for meta inference) and
    returns x shifted by a tag-specific amount (plus the other operands)."""
    run = RUN
    if run["active"]:
        run["log"].append(("chunk", tag, "start"))
        hook = run["on_call"]
        if hook is not None:
            hook(tag, "start")
    b = BUMP.get(tag, 3)
    if isinstance(x, list):
        res = [v + b for v in x]
    else:
        res = x + b
        for m in more:
            res = res + m
    if run["active"]:
        run["log"].append(("chunk", tag, "end"))
    return res


def M(tag):
    return partial(mark, tag)

"""Importable (picklable by reference) functions for bag workloads."""
from __future__ import annotations


def is_even(x):
    return x % 2 == 0


def mod3(x):
    return x % 3


def add1(x):
    return x + 1


def mul2(x):
    return x * 2


def pair(x):
    return (x % 4, x)


def first(t):
    return t[0]


def second(t):
    return t[1]


def add(a, b):
    return a + b


def addpair(a, b):
    return a + b


def dup(x):
    return [x, x + 100]


def rev_part(part):
    return list(reversed(list(part)))


def cumsum_part(part):
    out, s = [], 0
    for v in part:
        s += v
        out.append(s)
    return out


def fold_sum(acc, x):
    return acc + x


def count_binop(acc, x):
    return acc + 1


def sum_perpartition(part):
    return sum(part)


def sum_aggregate(parts):
    return sum(parts)


def as_record(x):
    return {"a": x, "b": x % 3}


def neg(x):
    return -x

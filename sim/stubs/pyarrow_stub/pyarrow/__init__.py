"""Permissive stub of pyarrow (absent from this sandbox and its wheelhouse).

`import dask.dataframe` requires pyarrow to be importable; no dask code path
that the checks exercise may actually *use* it (object-dtype strings,
dataframe.convert-string=False, no parquet).  Every attribute resolves to a
dummy; calling into the stub is recorded in TOUCHED so that a check can discard
a run whose result may depend on it."""
import sys
import types

__version__ = "21.0.0"
TOUCHED = []


class _Dummy:
    """Hashable, callable, attribute-permissive placeholder."""

    def __init__(self, name="dummy"):
        self._name = name

    def __call__(self, *a, **k):
        TOUCHED.append(self._name)
        return _Dummy(self._name + "()")

    def __getattr__(self, item):
        if item.startswith("__") and item.endswith("__"):
            raise AttributeError(item)
        return _Dummy(f"{self._name}.{item}")

    def __repr__(self):
        return f"<pyarrow-stub {self._name}>"

    def __hash__(self):
        return hash(self._name)

    def __eq__(self, other):
        return isinstance(other, _Dummy) and other._name == self._name

    def __iter__(self):
        return iter(())

    def __bool__(self):
        return False


class _DummyType(type):
    def __getattr__(cls, item):
        if item.startswith("__") and item.endswith("__"):
            raise AttributeError(item)
        return _Dummy(f"{cls.__name__}.{item}")


def _make_class(name):
    return _DummyType(name, (), {"__module__": "pyarrow", "__init__": lambda self, *a, **k: None})


_classes = {}


def __getattr__(name):
    if name.startswith("__") and name.endswith("__"):
        raise AttributeError(name)
    if name[:1].isupper():
        if name not in _classes:
            _classes[name] = _make_class(name)
        return _classes[name]
    return _Dummy(name)


def _submodule(name):
    m = types.ModuleType(f"pyarrow.{name}")

    def _ga(attr, _n=name):
        if attr.startswith("__") and attr.endswith("__"):
            raise AttributeError(attr)
        if attr[:1].isupper():
            key = f"{_n}.{attr}"
            if key not in _classes:
                _classes[key] = _make_class(attr)
            return _classes[key]
        return _Dummy(f"{_n}.{attr}")

    m.__getattr__ = _ga
    sys.modules[f"pyarrow.{name}"] = m
    return m


fs = _submodule("fs")
compute = _submodule("compute")
dataset = _submodule("dataset")
parquet = _submodule("parquet")
lib = _submodule("lib")
orc = _submodule("orc")
types_ = _submodule("types")

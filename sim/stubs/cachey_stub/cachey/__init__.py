"""Stub of the `cachey` package (absent from this sandbox) with the API that
dask.cache.Cache uses: nbytes(), Cache(available_bytes).data / .put().

Eviction is decided by DECIDER (set by the check from the choice tape): a
score-based cache may legally decline to keep or evict anything at any time,
so tape-driven eviction doubles as a fault kind."""
import sys

__version__ = "0.0-verif-stub"

DECIDER = [None]   # callable(kind, key) -> bool, or None (= keep everything)
STATS = {"put": 0, "declined": 0, "evicted": 0}


def nbytes(o):
    try:
        return sys.getsizeof(o)
    except Exception:
        return 64


class Cache:
    def __init__(self, available_bytes, limit=0, scorer=None, halflife=1000, nbytes=nbytes,
                 cache_data=None):
        self.available_bytes = available_bytes
        self.data = cache_data if cache_data is not None else {}
        self.total_bytes = 0

    def put(self, key, value, cost, nbytes=None):
        STATS["put"] += 1
        d = DECIDER[0]
        if d is not None and d("decline", key):
            STATS["declined"] += 1
            return
        self.data[key] = value
        if d is not None:
            for k in list(self.data):
                if k != key and d("evict", k):
                    STATS["evicted"] += 1
                    del self.data[k]

    def get(self, key, default=None):
        return self.data.get(key, default)

    def clear(self):
        self.data.clear()

"""Tape-driven task-graph generator, builder, and independent reference evaluator.

A graph spec is plain data (JSON-able):
  nodes: list of node, in an order in which every reference points backwards
  node:  {"key": K, "kind": "task"|"data"|"alias"|"container", "form": "legacy"|"obj", ...}
  arg:   ["ref", K] | ["aref", K] | ["lit", v] | ["quoted", v] | ["list", [arg]] |
         ["tuple", [arg]] | ["dict", [[k, arg]]] | ["call", tag, [arg], [[k, arg]]]
Keys are str or tuples ("x", i); inside the spec tuples are stored as lists and
converted by K().
"""
from __future__ import annotations

from sim import taskfns


def K(k):
    return tuple(k) if isinstance(k, list) else k


def keyrepr(k):
    return repr(K(k))


def _key_for(tape, i):
    r = tape.draw(4, "keykind")
    if r <= 1:
        return f"k{i}"
    if r == 2:
        return ["x", i]
    return ["x", i // 2, i]


def gen_literal(tape, keys, allow_keylike):
    r = tape.draw(8, "lit")
    if r <= 2:
        return tape.draw(20, "litint")
    if r == 3:
        return f"lit{tape.draw(5, 'lits')}"
    if r == 4:
        return [tape.draw(9, "l0"), tape.draw(9, "l1")]
    if r == 5:
        return {"a": tape.draw(9, "d0")}
    if r == 6:
        return None
    if allow_keylike and keys:
        return keys[tape.draw(len(keys), "keylike")]
    # legacy form: a string that is a key name in OTHER graphs but names nothing in this one (node j
    # of this graph has a tuple key, so "k<j>" is free here for good) -- a plain literal
    free = [f"k{j}" for j, k in enumerate(keys) if k != f"k{j}"]
    if free:
        return free[tape.draw(len(free), "freename")]
    return tape.draw(20, "litint")


def _pick_ref(tape, prev):
    # bias towards recent nodes (chains, diamonds) but keep long edges
    if len(prev) > 3 and tape.chance(1, 3, "recent"):
        return prev[len(prev) - 1 - tape.draw(3, "ref")]
    return prev[len(prev) - 1 - tape.draw(len(prev), "ref")]


def gen_arg(tape, ctx, depth):
    prev, form, nodekey = ctx["prev"], ctx["form"], ctx["key"]
    w = [(4 if prev else 0, "ref"), (4, "lit"), (1, "list"), (1, "tuple"),
         (1, "dict"), (1, "call"), (1, "quoted")]
    if depth >= 2:
        w = [(5 if prev else 0, "ref"), (3, "lit")]
    w = [x for x in w if x[0] > 0]
    kind = tape.weighted(w, "argkind")
    if kind == "ref":
        k = _pick_ref(tape, prev)
        if form == "obj" and tape.chance(1, 6, "aref"):
            return ["aref", k]
        return ["ref", k]
    if kind == "lit":
        return ["lit", gen_literal(tape, prev, allow_keylike=(form == "obj"))]
    if kind == "quoted":
        if form == "legacy":
            return ["quoted", gen_literal(tape, prev, allow_keylike=True)]
        return ["lit", gen_literal(tape, prev, allow_keylike=True)]
    if kind == "tuple" and form == "legacy":
        # The legacy spec only defines lists (and tasks) as traversed containers;
        # a non-task tuple holding keys/tasks is outside it (dask's own dependency
        # finder and its converter disagree about it) -> literal elements only.
        n = 1 + tape.draw(3, "nelem")
        return ["tuple", [["lit", tape.draw(30, "tv")] for _ in range(n)]]
    if kind in ("list", "tuple"):
        n = tape.draw(3, "nelem") + (1 if kind == "tuple" else 0)
        elems = [gen_arg(tape, ctx, depth + 1) for _ in range(n)]
        return [kind, elems]
    if kind == "dict":
        n = 1 + tape.draw(2, "nitem")
        if form == "legacy":
            # legacy dict arguments are only resolved one level deep by dask and
            # only for non-key-like values: keep literals here
            return ["dict", [[f"f{j}", ["lit", tape.draw(30, "dv")]] for j in range(n)]]
        return ["dict", [[f"f{j}", gen_arg(tape, ctx, depth + 1)] for j in range(n)]]
    # nested call
    ctx["ncall"] += 1
    tag = [keyrepr(nodekey), ctx["ncall"], tape.draw(5, "shape"), None]
    n = tape.draw(3, "nargs")
    args = [gen_arg(tape, ctx, depth + 1) for _ in range(n)]
    return ["call", tag, args, []]


def gen_graph(tape, max_nodes=12, min_nodes=1):
    nodes = []
    prev = []
    for i in range(max_nodes):
        # uniform length, but encoded as a per-node "stop" draw so that deleting a
        # node's span from the tape deletes the node (shrinking)
        if i >= min_nodes and tape.draw(max_nodes - i + 1, "stop") == 0:
            break
        with tape.span("node"):
            key = _key_for(tape, i)
            form = "legacy" if tape.chance(1, 2, "form") is False else "obj"
            kinds = [(7, "task"), (2, "data")]
            if prev:
                kinds += [(1, "alias"), (1, "container")]
            kind = tape.weighted(kinds, "kind")
            node = {"key": key, "kind": kind, "form": form}
            ctx = {"prev": prev, "form": form, "key": key, "ncall": 0}
            if kind == "task":
                shape = tape.draw(9, "shape")
                extra = None
                if shape in (5, 8):
                    if prev:
                        extra = prev[tape.draw(len(prev), "kl")]
                    else:
                        shape = 0
                node["tag"] = [keyrepr(key), 0, shape, extra]
                nargs = tape.draw(4, "nargs")
                if prev and nargs == 0 and tape.chance(1, 3, "force_dep"):
                    nargs = 1
                node["args"] = [gen_arg(tape, ctx, 0) for _ in range(nargs)]
                node["kwargs"] = []
                if form == "obj" and tape.chance(1, 4, "kw"):
                    node["kwargs"] = [["kw0", gen_arg(tape, ctx, 1)]]
            elif kind == "data":
                node["value"] = gen_literal(tape, prev, allow_keylike=(form == "obj"))
            elif kind == "alias":
                node["target"] = _pick_ref(tape, prev)
            else:  # container node (legacy only): a list/tuple evaluated elementwise
                node["form"] = ctx["form"] = "legacy"
                n2 = 1 + tape.draw(3, "nelem")
                elems = [["ref", _pick_ref(tape, prev)]]
                elems += [gen_arg(tape, ctx, 1) for _ in range(n2 - 1)]
                node["ctype"] = "list"
                node["elems"] = elems
            nodes.append(node)
            prev = prev + [key]
    return {"nodes": nodes}


def gen_graph_wide(tape, max_leaves=12):
    """Many independent tasks feeding a few reducers: lots of tasks ready and running at once
    (what saturates the workers of a pool with batches of several sizes)."""
    nodes, prev = [], []
    with tape.span("wide"):
        m = 5 + tape.draw(max_leaves - 4, "leaves")
        nred = 1 + tape.draw(3, "reducers")
        for i in range(m + nred):
            key = f"k{i}"
            form = "legacy" if tape.chance(1, 2, "form") is False else "obj"
            node = {"key": key, "kind": "task", "form": form, "tag": [keyrepr(key), 0, 0, None],
                    "args": [], "kwargs": []}
            if i >= m:
                nin = 2 + tape.draw(3, "nin")
                node["args"] = [["ref", prev[tape.draw(len(prev), "in")]] for _ in range(nin)]
            nodes.append(node)
            prev = prev + [key]
    return {"nodes": nodes}


def gen_graph_forest(tape):
    """14-20 tasks, three roots, every other task depending on one (mostly) or two earlier ones, and a
    sink over all tasks nobody else consumes.  With 3 workers and batches of 2 this family reaches,
    in about 1 % of its runs, dispatch rounds in which tasks are ready while the outstanding batches
    ([1][1][2][2]: more batches than workers) leave no worker free."""
    nodes, prev = [], []
    with tape.span("forest"):
        n = 14 + tape.draw(7, "n")
        used = set()
        for i in range(n):
            key = f"k{i}"
            form = "legacy" if tape.chance(1, 2, "form") is False else "obj"
            node = {"key": key, "kind": "task", "form": form, "tag": [keyrepr(key), 0, 0, None],
                    "args": [], "kwargs": []}
            if i >= 3:
                nin = 2 if tape.draw(5, "nin") == 0 else 1
                ins = {prev[tape.draw(len(prev), "in")] for _ in range(nin)}
                node["args"] = [["ref", k] for k in sorted(ins)]
                used |= ins
            nodes.append(node)
            prev = prev + [key]
        key = f"k{n}"
        nodes.append({"key": key, "kind": "task", "form": "obj", "tag": [keyrepr(key), 0, 0, None],
                      "args": [["ref", k] for k in prev if k not in used], "kwargs": []})
    return {"nodes": nodes}


def gen_graph_layered(tape, max_nodes=16):
    """Layers of tasks, each depending on one (fan-out) or two tasks of the layer above: every
    completion readies a varying number of new tasks, so that dispatch rounds see odd numbers of
    ready tasks, singleton batches and more batches than workers."""
    nodes, prev = [], []
    with tape.span("layered"):
        layers = [[f"k{i}" for i in range(1 + tape.draw(4, "w0"))]]
        n = len(layers[0])
        for _ in range(2 + tape.draw(3, "depth")):
            w = 1 + tape.draw(5, "w")
            if n + w > max_nodes:
                break
            layers.append([f"k{n + j}" for j in range(w)])
            n += w
        for li, layer in enumerate(layers):
            for key in layer:
                form = "legacy" if tape.chance(1, 2, "form") is False else "obj"
                node = {"key": key, "kind": "task", "form": form, "tag": [keyrepr(key), 0, 0, None],
                        "args": [], "kwargs": []}
                if li:
                    above = layers[li - 1]
                    nin = 1 if tape.draw(3, "nin") else min(2, len(above))
                    node["args"] = [["ref", above[tape.draw(len(above), "in")]] for _ in range(nin)]
                nodes.append(node)
        # a sink over the last layer so that one request needs everything
        key = f"k{n}"
        nodes.append({"key": key, "kind": "task", "form": "obj", "tag": [keyrepr(key), 0, 0, None],
                      "args": [["ref", k] for k in layers[-1]] + [["ref", layers[0][0]]], "kwargs": []})
    return {"nodes": nodes}


def gen_request(tape, spec):
    keys = [n["key"] for n in spec["nodes"]]
    with tape.span("request"):
        r = tape.draw(9, "reqshape")
        last = keys[-1]
        if r == 0:
            return last
        if r == 6:   # requests naming no key at all: nothing is needed, nothing may run
            return [[], [[]], [[], []]][tape.draw(3, "empty")]
        if r == 1:
            return keys[len(keys) - 1 - tape.draw(len(keys), "req")]
        if r == 2:
            return [last]
        m = 1 + tape.draw(min(4, len(keys)), "nreq")
        picks = [keys[len(keys) - 1 - tape.draw(len(keys), "req")] for _ in range(m)]
        if r == 3:
            return picks
        if r == 4:
            return [picks[:1], picks[1:] + picks[:1]] if len(picks) > 1 else [picks]
        if r == 7:   # a level mixing keys and sub-lists, key first
            return [last, picks]
        if r == 8:   # deeper mixed nesting, with an empty sub-list
            return [[picks[0], [last, picks[:1]]], last, []]
        return [[picks[0]], picks, [[last]]]


# ---------------------------------------------------------------------------
# reference semantics (no dask involved)


def _tag(t):
    return (t[0], t[1], t[2], K(t[3]) if isinstance(t[3], list) else t[3])


def ev_arg(a, vals, calls):
    t = a[0]
    if t in ("ref", "aref"):
        return vals[K(a[1])]
    if t in ("lit", "quoted"):
        return _keylit(a[1])
    if t == "list":
        return [ev_arg(x, vals, calls) for x in a[1]]
    if t == "tuple":
        return tuple(ev_arg(x, vals, calls) for x in a[1])
    if t == "dict":
        return {k: ev_arg(v, vals, calls) for k, v in a[1]}
    if t == "call":
        tag = _tag(a[1])
        args = [ev_arg(x, vals, calls) for x in a[2]]
        kwargs = {k: ev_arg(v, vals, calls) for k, v in a[3]}
        calls[tag[:2]] = (taskfns.norm(list(args)), taskfns.norm(dict(kwargs)))
        return taskfns.compute_value(tag, args, kwargs)
    raise AssertionError(t)


def arg_refs(a, out):
    t = a[0]
    if t in ("ref", "aref"):
        out.add(K(a[1]))
    elif t in ("list", "tuple"):
        for x in a[1]:
            arg_refs(x, out)
    elif t == "dict":
        for _, v in a[1]:
            arg_refs(v, out)
    elif t == "call":
        for x in a[2]:
            arg_refs(x, out)
        for _, v in a[3]:
            arg_refs(v, out)
    return out


def node_deps(node):
    out = set()
    k = node["kind"]
    if k == "task":
        for a in node["args"]:
            arg_refs(a, out)
        for _, v in node["kwargs"]:
            arg_refs(v, out)
    elif k == "alias":
        out.add(K(node["target"]))
    elif k == "container":
        for a in node["elems"]:
            arg_refs(a, out)
    return out


def node_call_tags(node):
    """All function call sites of a node (tag[:2])."""
    out = []

    def walk(a):
        t = a[0]
        if t in ("list", "tuple"):
            for x in a[1]:
                walk(x)
        elif t == "dict":
            for _, v in a[1]:
                walk(v)
        elif t == "call":
            out.append((a[1][0], a[1][1]))
            for x in a[2]:
                walk(x)
            for _, v in a[3]:
                walk(v)

    if node["kind"] == "task":
        out.append((node["tag"][0], node["tag"][1]))
        for a in node["args"]:
            walk(a)
        for _, v in node["kwargs"]:
            walk(v)
    elif node["kind"] == "container":
        for a in node["elems"]:
            walk(a)
    return out


def node_call_refs(node):
    """{call site tag2: keys referenced inside that call's own argument subtree}."""
    out = {}

    def walk(a):
        t = a[0]
        if t in ("list", "tuple"):
            for x in a[1]:
                walk(x)
        elif t == "dict":
            for _, v in a[1]:
                walk(v)
        elif t == "call":
            refs = set()
            for x in a[2]:
                arg_refs(x, refs)
                walk(x)
            for _, v in a[3]:
                arg_refs(v, refs)
                walk(v)
            out[(a[1][0], a[1][1])] = refs

    if node["kind"] == "task":
        out[(node["tag"][0], node["tag"][1])] = node_deps(node)
        for a in node["args"]:
            walk(a)
        for _, v in node["kwargs"]:
            walk(v)
    elif node["kind"] == "container":
        for a in node["elems"]:
            walk(a)
    return out


def evaluate(spec):
    """-> (values {key: value}, calls {tag2: (args, kwargs)}, deps {key: set})"""
    vals, calls, deps = {}, {}, {}
    for node in spec["nodes"]:
        key = K(node["key"])
        kind = node["kind"]
        deps[key] = node_deps(node)
        if kind == "task":
            tag = _tag(node["tag"])
            args = [ev_arg(a, vals, calls) for a in node["args"]]
            kwargs = {k: ev_arg(v, vals, calls) for k, v in node["kwargs"]}
            calls[tag[:2]] = (taskfns.norm(list(args)), taskfns.norm(dict(kwargs)))
            vals[key] = taskfns.compute_value(tag, args, kwargs)
        elif kind == "data":
            vals[key] = _keylit(node["value"])
        elif kind == "alias":
            vals[key] = vals[K(node["target"])]
        else:
            seq = [ev_arg(a, vals, calls) for a in node["elems"]]
            vals[key] = seq if node["ctype"] == "list" else tuple(seq)
    return vals, calls, deps


def needed(spec, request, deps):
    out = set()
    stack = list(flatten_request(request))
    while stack:
        k = stack.pop()
        if k in out:
            continue
        out.add(k)
        stack.extend(deps[k])
    return out


def flatten_request(req):
    """req: a real request (keys are str/tuple, nesting is list)."""
    if isinstance(req, list):
        for r in req:
            yield from flatten_request(r)
    else:
        yield req


def expected_result(req, vals):
    if isinstance(req, list):
        return tuple(expected_result(r, vals) for r in req)
    return vals[req]


# ---------------------------------------------------------------------------
# the stored request uses lists for nesting, so tuple keys need a distinct form:
# requests are converted once with req_keys()


def req_keys(req, keyset):
    """Convert a stored request (tuple keys stored as lists) to real keys.
    A list is a key iff it is in keyset (as tuple)."""
    if isinstance(req, list):
        t = _as_key(req)
        if t is not None and t in keyset:
            return t
        return [req_keys(r, keyset) for r in req]
    return req


def _as_key(lst):
    try:
        if lst and lst[0] == "x" and all(isinstance(i, int) for i in lst[1:]):
            return tuple(lst)
    except Exception:
        pass
    return None


def _keylit(v):
    """Key-like literal stored as list ["x", i(, j)] -> tuple key."""
    if isinstance(v, list):
        t = _as_key(v)
        if t is not None:
            return t
    return v


# ---------------------------------------------------------------------------
# building the real dask graph


def build_arg(a, form):
    from dask._task_spec import Alias, Dict, List, Task, TaskRef, Tuple
    from dask.core import literal

    t = a[0]
    if t == "ref":
        return K(a[1]) if form == "legacy" else TaskRef(K(a[1]))
    if t == "aref":
        return Alias(K(a[1]))
    if t == "lit":
        return _keylit(a[1])
    if t == "quoted":
        return (literal(_keylit(a[1])),)
    if t == "list":
        elems = [build_arg(x, form) for x in a[1]]
        if form == "legacy":
            return elems
        # List(x) with a single list argument means list(x) (constructor-like API)
        return List(elems) if len(elems) == 1 else List(*elems)
    if t == "tuple":
        elems = [build_arg(x, form) for x in a[1]]
        if form == "legacy":
            return tuple(elems)
        return Tuple(tuple(elems)) if len(elems) == 1 else Tuple(*elems)
    if t == "dict":
        d = {k: build_arg(v, form) for k, v in a[1]}
        return d if form == "legacy" else Dict(d)
    if t == "call":
        f = taskfns.F(_tag(a[1]))
        args = [build_arg(x, form) for x in a[2]]
        if form == "legacy":
            return (f, *args)
        return Task(None, f, *args, **{k: build_arg(v, form) for k, v in a[3]})
    raise AssertionError(t)


def build(spec):
    from dask._task_spec import Alias, DataNode, Task

    dsk = {}
    for node in spec["nodes"]:
        key = K(node["key"])
        kind, form = node["kind"], node["form"]
        if kind == "task":
            f = taskfns.F(_tag(node["tag"]))
            args = [build_arg(a, form) for a in node["args"]]
            if form == "legacy":
                dsk[key] = (f, *args)
            else:
                kw = {k: build_arg(v, form) for k, v in node["kwargs"]}
                dsk[key] = Task(key, f, *args, **kw)
        elif kind == "data":
            v = _keylit(node["value"])
            dsk[key] = v if form == "legacy" else DataNode(key, v)
        elif kind == "alias":
            tgt = K(node["target"])
            dsk[key] = tgt if form == "legacy" else Alias(key, tgt)
        else:
            elems = [build_arg(a, "legacy") for a in node["elems"]]
            dsk[key] = elems if node["ctype"] == "list" else tuple(elems)
    return dsk

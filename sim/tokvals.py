"""Values for the tokenize check, built from JSON-able specs so that a fresh
interpreter can rebuild exactly the same value."""
from __future__ import annotations

import dataclasses
import functools


@dataclasses.dataclass
class Point:
    x: object
    y: object = 0


def helper_fn(a, b=1):
    return a + b


class Custom:
    """Deterministic custom tokenization through __dask_tokenize__."""

    def __init__(self, payload):
        self.payload = payload

    def __dask_tokenize__(self):
        from dask.tokenize import normalize_token

        return "Custom", normalize_token(self.payload)


class NestedTokenizer:
    """__dask_tokenize__ that calls tokenize() itself (nested call path).  The token the nested call
    returned is kept so that the oracle can compare it with a top-level tokenize() of an equal payload."""

    instances: list = []

    def __init__(self, payload, spec=None):
        self.payload = payload
        self.spec = spec
        self.inner = None
        if spec is not None:
            NestedTokenizer.instances.append(self)

    def __dask_tokenize__(self):
        from dask.tokenize import tokenize

        self.inner = tokenize(self.payload)
        return "Nested", self.inner

    def __reduce__(self):
        return NestedTokenizer, (self.payload,)

    def __deepcopy__(self, memo):
        import copy

        return NestedTokenizer(copy.deepcopy(self.payload, memo))


class Exploding:
    """__dask_tokenize__ raises: exercises the restore path of tokenize()."""

    def __init__(self, payload):
        self.payload = payload

    def __dask_tokenize__(self):
        from dask.tokenize import normalize_token

        normalize_token(self.payload)
        raise ValueError("exploding tokenization")


PLAIN_KINDS = ("int", "str", "bytes", "float", "none", "list", "tuple", "dict", "ndarray", "series")
KINDS = PLAIN_KINDS + ("set", "frozenset", "reclist", "recdict", "point", "partial", "func", "custom",
                       "nested_tok", "fsset", "tupset", "localcls", "localinst", "dcparent", "dcchild")

# classes created at run time (pickled by value by cloudpickle, like classes defined in __main__ or in
# a function); one class object per number and run, see reset_local_classes()
_LOCAL_CLASSES: dict = {}


def reset_local_classes():
    _LOCAL_CLASSES.clear()


def local_dc_pair(n):
    """A run-time dataclass and a subclass of it that defines __dask_tokenize__ (ignoring its
    memo field, which does not take part in equality either)."""
    if ("dc", n) not in _LOCAL_CLASSES:
        parent = dataclasses.make_dataclass(f"DParent{n}", [("x", int), ("y", int)],
                                            namespace={"__module__": "__main__"})

        def __dask_tokenize__(self):
            return (f"DChild{n}", self.x, self.y)

        child = dataclasses.make_dataclass(
            f"DChild{n}", [("memo", int, dataclasses.field(default=0, compare=False))], bases=(parent,),
            namespace={"__module__": "__main__", "__dask_tokenize__": __dask_tokenize__})
        _LOCAL_CLASSES[("dc", n)] = (parent, child)
    return _LOCAL_CLASSES[("dc", n)]


def local_class(n):
    if n not in _LOCAL_CLASSES:
        def __init__(self, v):
            self.v = v

        def __eq__(self, other):
            return type(other) is type(self) and other.v == self.v

        cls = type(f"Local{n}", (), {"__init__": __init__, "__eq__": __eq__, "__hash__": None,
                                     "__module__": "__main__", "number": n})
        _LOCAL_CLASSES[n] = cls
    return _LOCAL_CLASSES[n]


def gen_spec(tape, depth=0, plain=False):
    kinds = PLAIN_KINDS if plain else KINDS
    if depth >= 3:
        kinds = ("int", "str", "bytes", "float", "none")
    k = kinds[tape.draw(len(kinds), "vkind")]
    if k == "int":
        return ["int", tape.draw(1000, "i") - 500]
    if k == "str":
        return ["str", "s" * tape.draw(3, "sl") + str(tape.draw(50, "sv"))]
    if k == "bytes":
        return ["bytes", "%04x" % tape.draw(65536, "b")]
    if k == "float":
        return ["float", tape.draw(100, "f") / 8.0]
    if k == "none":
        return ["none"]
    if k in ("list", "tuple"):
        return [k, [gen_spec(tape, depth + 1, plain) for _ in range(tape.draw(4, "n"))]]
    if k == "dict":
        return ["dict", [[f"k{j}{tape.draw(3, 'kk')}", gen_spec(tape, depth + 1, plain)]
                         for j in range(tape.draw(4, "n"))]]
    if k == "ndarray":
        n = 1 + tape.draw(5, "an")
        return ["ndarray", ("i8", "f8", "u1", "bool")[tape.draw(4, "dt")],
                [tape.draw(200, "av") for _ in range(n)], ("C", "rev", "strided")[tape.draw(3, "lay")]]
    if k == "series":
        n = 1 + tape.draw(4, "sn")
        return ["series", [tape.draw(100, "sv") for _ in range(n)], f"name{tape.draw(3, 'nm')}"]
    if k in ("set", "frozenset"):
        return [k, sorted({f"e{tape.draw(30, 'se')}" for _ in range(tape.draw(5, "n"))})]
    if k == "localcls":
        return ["localcls", tape.draw(2, "lc")]
    if k == "localinst":
        return ["localinst", tape.draw(2, "lc"), tape.draw(5, "lv")]
    if k == "dcparent":
        return ["dcparent", tape.draw(2, "dc"), tape.draw(4, "dx"), tape.draw(4, "dy")]
    if k == "dcchild":
        return ["dcchild", tape.draw(2, "dc"), tape.draw(4, "dx"), tape.draw(4, "dy"), tape.draw(3, "dm")]
    if k == "fsset":
        # a set of frozensets of small ints (members that "<" only partially orders, and whose own
        # iteration order depends on the insertion order when hashes collide modulo the table size)
        return ["fsset", [sorted({tape.draw(4, "fe") * 8 + tape.draw(2, "fo") for _ in range(1 + tape.draw(3, "fn"))})
                          for _ in range(tape.draw(5, "n"))]]
    if k == "tupset":
        return ["tupset", sorted({(tape.draw(3, "ta") * 8, f"t{tape.draw(3, 'tb')}") for _ in range(tape.draw(5, "n"))})]
    if k == "reclist":
        return ["reclist", [gen_spec(tape, depth + 1, True) for _ in range(tape.draw(3, "n"))]]
    if k == "recdict":
        return ["recdict", [gen_spec(tape, depth + 1, True) for _ in range(tape.draw(3, "n"))]]
    if k == "point":
        return ["point", gen_spec(tape, depth + 1, plain), gen_spec(tape, depth + 1, plain)]
    if k == "partial":
        return ["partial", tape.draw(20, "pa"), tape.draw(20, "pb")]
    if k == "func":
        return ["func"]
    if k == "custom":
        return ["custom", gen_spec(tape, depth + 1, plain)]
    return ["nested_tok", gen_spec(tape, depth + 1, plain)]


def build(spec, rev=False):
    """rev: an equal value whose sets and dicts were filled in the opposite insertion order
    (equal values must tokenize alike whatever their iteration order)."""
    if rev:
        return _build_rev(spec)
    k = spec[0]
    if k in ("int", "str", "float"):
        return spec[1]
    if k == "bytes":
        return bytes.fromhex(spec[1])
    if k == "none":
        return None
    if k == "list":
        return [build(s) for s in spec[1]]
    if k == "tuple":
        return tuple(build(s) for s in spec[1])
    if k == "dict":
        return {kk: build(v) for kk, v in spec[1]}
    if k == "ndarray":
        import numpy as np

        a = np.array(spec[2]).astype(spec[1])
        if spec[3] == "rev":
            a = a[::-1]
        elif spec[3] == "strided":
            a = np.repeat(a, 2)[::2]
        return a
    if k == "series":
        import pandas as pd

        return pd.Series(spec[1], name=spec[2])
    if k == "set":
        return set(spec[1])
    if k == "frozenset":
        return frozenset(spec[1])
    if k == "localcls":
        return local_class(spec[1])
    if k == "localinst":
        return local_class(spec[1])(spec[2])
    if k == "dcparent":
        return local_dc_pair(spec[1])[0](spec[2], spec[3])
    if k == "dcchild":
        return local_dc_pair(spec[1])[1](spec[2], spec[3], spec[4])
    if k == "fsset":
        return {frozenset(m) for m in spec[1]}
    if k == "tupset":
        return {tuple(m) for m in spec[1]}
    if k == "reclist":
        lst = [build(s) for s in spec[1]]
        lst.append(lst)
        return lst
    if k == "recdict":
        d = {f"r{i}": build(s) for i, s in enumerate(spec[1])}
        d["self"] = d
        inner = [d]
        d["inner"] = inner
        return d
    if k == "point":
        return Point(build(spec[1]), build(spec[2]))
    if k == "partial":
        return functools.partial(helper_fn, spec[1], b=spec[2])
    if k == "func":
        return helper_fn
    if k == "custom":
        return Custom(build(spec[1]))
    if k == "nested_tok":
        return NestedTokenizer(build(spec[1]), spec[1])
    if k == "exploding":
        return Exploding(build(spec[1]))
    raise AssertionError(k)


def _filled(typ, items):
    out = set()
    for it in items:
        out.add(it)
    return out if typ is set else frozenset(out)


def _build_rev(spec):
    k = spec[0]
    if k == "dcchild":
        # an equal instance (the memo field is excluded from equality and from __dask_tokenize__)
        return local_dc_pair(spec[1])[1](spec[2], spec[3], spec[4] + 1)
    if k == "list":
        return [_build_rev(s) for s in spec[1]]
    if k == "tuple":
        return tuple(_build_rev(s) for s in spec[1])
    if k == "dict":
        return {kk: _build_rev(v) for kk, v in reversed(spec[1])}
    if k in ("set", "frozenset"):
        return _filled(set if k == "set" else frozenset, reversed(spec[1]))
    if k == "fsset":
        return _filled(set, [_filled(frozenset, reversed(m)) for m in reversed(spec[1])])
    if k == "tupset":
        return _filled(set, [tuple(m) for m in reversed(spec[1])])
    if k == "point":
        return Point(_build_rev(spec[1]), _build_rev(spec[2]))
    if k == "custom":
        return Custom(_build_rev(spec[1]))
    if k == "nested_tok":
        return NestedTokenizer(_build_rev(spec[1]))
    return build(spec)

"""Engine E1: single-threaded discrete-event executor.

SimExecutor.submit() only enqueues a job.  The client's blocking point,
dask.local.queue_get, is replaced by sim_queue_get, which fires
tape-chosen events (START job / COMPLETE job / faults) until the completion
queue is non-empty.  Real dask code (batch_execute_tasks, execute_task, task
objects, done-callbacks, Queue) runs unchanged; only "who runs next" and
"which completion is delivered next" are decided here.
"""
from __future__ import annotations

import hashlib
from concurrent.futures import Executor, Future
from concurrent.futures.process import BrokenProcessPool

from sim.pin import HarnessError

CURRENT = [None]  # active E1 simulation (or None)
THREADS = [None]  # active E2 scheduler (set by simthreads)
_installed = [False]
_real_queue_get = [None]


class SimHang(BaseException):
    """Step cap exceeded: the scheduler call does not terminate."""


class SimDeadlock(BaseException):
    """Client blocked on the completion queue and nothing can ever arrive."""


def install():
    import dask.local as dl

    if not _installed[0]:
        _real_queue_get[0] = dl.queue_get
        dl.queue_get = sim_queue_get
        _installed[0] = True


def sim_queue_get(q):
    thr = THREADS[0]
    if thr is not None:
        return thr.queue_get(q)
    sim = CURRENT[0]
    if sim is None:
        if q.empty():
            raise HarnessError("blocking queue_get outside a simulation")
        return q.get()
    return sim.queue_get(q)


POLICIES = ("random", "fifo", "lifo", "starve", "pct", "wide", "complete_first")


class Job:
    __slots__ = ("id", "fn", "args", "kwargs", "fut", "started", "done", "outcome",
                 "keys", "prio", "cb", "ecb", "crash")

    def __init__(self, id, fn, args, kwargs):
        self.id = id
        self.fn = fn
        self.args = args
        self.kwargs = kwargs
        self.fut = None
        self.started = False
        self.done = False
        self.outcome = None
        self.keys = ()
        self.prio = 0
        self.cb = self.ecb = None
        self.crash = None


def _job_keys(fn, args):
    # batch_execute_tasks(list of (key, task_info, ...)): record keys for logs
    try:
        if args and isinstance(args[0], list):
            return tuple(a[0] for a in args[0])
    except Exception:
        pass
    return ()


class SimClock:
    def __init__(self):
        self.t = 1000.0

    def now(self):
        return self.t


class Sim:
    """One simulated executor + event loop for one run."""

    def __init__(self, tape, max_workers=4, policy=None, faults=None, use_clock=False,
                 step_cap=4000, clock=None):
        self.tape = tape
        self.max_workers = max_workers
        self.policy = policy or "random"
        self.faults = dict(faults or {})  # name -> parameters
        self.jobs = []
        self.open = []  # jobs not yet completed
        self.log = []
        self.events = 0
        self.step_cap = step_cap
        self.clock = clock if clock is not None else SimClock()
        self.use_clock = use_clock or clock is not None
        self.hooks = []  # called after every event with (sim, ev)
        self.max_conc = 0
        self.max_open = 0
        self.fired = {}  # fault kind -> count
        self.probes = {}
        self.nsubmit = 0
        self.nqget = 0
        self.starve_mod = tape.draw(3, "starve_mod") if self.policy == "starve" else 0
        self.executor = SimExecutor(self)

    # ---- bookkeeping
    def probe(self, name, n=1):
        self.probes[name] = self.probes.get(name, 0) + n

    def fault_fired(self, kind):
        self.fired[kind] = self.fired.get(kind, 0) + 1

    def record(self, *ev):
        self.log.append(ev)

    def digest(self):
        return hashlib.blake2b(repr(self.log).encode(), digest_size=8).hexdigest()

    def tick(self):
        if self.use_clock:
            self.clock.t += 1 + self.tape.draw(5, "dt")

    # ---- executor side
    def submit(self, fn, *args, **kwargs):
        self.nsubmit += 1
        f = self.faults.get("submit_fails")
        if f is not None and self.nsubmit == f:
            self.fault_fired("submit_fails")
            self.record("submit_fails", self.nsubmit)
            raise RuntimeError("cannot schedule new futures after shutdown")
        job = Job(len(self.jobs), fn, args, kwargs)
        job.fut = Future()
        job.keys = _job_keys(fn, args)
        if self.policy == "pct":
            job.prio = self.tape.draw(1000, "prio")
        cr = self.faults.get("crash")
        if cr is not None and cr.get("job") == job.id:
            job.crash = cr.get("when", "before")
        self.jobs.append(job)
        self.open.append(job)
        if len(self.open) > self.max_open:
            self.max_open = len(self.open)
        self.record("submit", job.id, job.keys)
        return job.fut

    def apply_async(self, fn, args=(), kwargs=None, callback=None, error_callback=None):
        """multiprocessing.Pool.apply_async-shaped seam (get_apply_async)."""
        job = Job(len(self.jobs), fn, args, kwargs or {})
        job.cb, job.ecb = callback, error_callback
        job.keys = _job_keys(fn, args)
        if self.policy == "pct":
            job.prio = self.tape.draw(1000, "prio")
        self.jobs.append(job)
        self.open.append(job)
        if len(self.open) > self.max_open:
            self.max_open = len(self.open)
        self.record("submit", job.id, job.keys)
        return None

    # ---- event loop
    def enabled(self):
        evs = []
        running = sum(1 for j in self.open if j.started)
        if running > self.max_conc:
            self.max_conc = running
        for j in self.open:
            if not j.started:
                if running < self.max_workers:
                    evs.append(("start", j))
            else:
                evs.append(("complete", j))
        return evs

    def pick(self, evs):
        p = self.policy
        if len(evs) == 1:
            return evs[0]
        if p == "fifo":
            return evs[0]
        if p == "lifo":
            return evs[-1]
        if p == "wide":  # start everything that can start before completing anything
            starts = [e for e in evs if e[0] == "start"]
            pool = starts or evs
            return pool[self.tape.draw(len(pool), "ev")]
        if p == "complete_first":
            comps = [e for e in evs if e[0] == "complete"]
            pool = comps or evs
            return pool[self.tape.draw(len(pool), "ev")]
        if p == "starve":
            pool = [e for e in evs if e[1].id % 3 != self.starve_mod]
            pool = pool or evs
            return pool[self.tape.draw(len(pool), "ev")]
        if p == "pct":
            return max(evs, key=lambda e: (e[1].prio, -e[1].id))
        return evs[self.tape.draw(len(evs), "ev")]

    def fire(self, ev):
        kind, job = ev
        self.events += 1
        if self.events > self.step_cap:
            raise SimHang(f"step cap {self.step_cap} exceeded")
        self.tick()
        if kind == "start":
            job.started = True
            self.record("start", job.id)
            if job.crash == "before":
                job.outcome = ("crash", None)
            else:
                try:
                    res = job.fn(*job.args, **job.kwargs)
                    job.outcome = ("ok", res)
                except BaseException as e:  # what a real pool does
                    if isinstance(e, (HarnessError, SimHang, SimDeadlock)):
                        raise
                    job.outcome = ("exc", e)
                if job.crash == "after":
                    job.outcome = ("crash", None)
        else:
            job.done = True
            self.open.remove(job)
            kind2, val = job.outcome
            self.record("complete", job.id, kind2)
            if kind2 == "crash":
                self.fault_fired("worker_crash")
                val = BrokenProcessPool(
                    "A process in the process pool was terminated abruptly"
                )
                kind2 = "exc"
            if job.fut is not None:
                if kind2 == "ok":
                    job.fut.set_result(val)
                else:
                    job.fut.set_exception(val)
            else:
                if kind2 == "ok":
                    job.cb(val)
                elif isinstance(val, Exception):
                    job.ecb(val)
                else:
                    # multiprocessing.pool workers only catch Exception: a BaseException that
                    # escapes the job kills the worker and the result is never reported
                    self.record("lost", job.id)
        for h in self.hooks:
            h(self, ev)

    def queue_get(self, q):
        self.nqget += 1
        intr = self.faults.get("interrupt")
        if intr is not None and self.nqget == intr:
            self.fault_fired("interrupt")
            self.record("interrupt", self.nqget)
            raise KeyboardInterrupt()
        while q.empty():
            evs = self.enabled()
            if not evs:
                raise SimDeadlock("client blocked, no pending job")
            self.fire(self.pick(evs))
        return q.get_nowait()

    def drain(self):
        """After the client returned: finish left-over jobs (failed runs)."""
        n = 0
        while self.open and n < 10000:
            evs = self.enabled()
            if not evs:
                break
            self.fire(evs[0])
            n += 1

    # ---- context
    def __enter__(self):
        if CURRENT[0] is not None:
            raise HarnessError("nested Sim")
        install()
        CURRENT[0] = self
        return self

    def __exit__(self, *a):
        CURRENT[0] = None
        return False


class SimExecutor(Executor):
    def __init__(self, sim):
        self.sim = sim
        self._max_workers = sim.max_workers

    def submit(self, fn, /, *args, **kwargs):
        return self.sim.submit(fn, *args, **kwargs)

    def shutdown(self, wait=True, *, cancel_futures=False):
        self.sim.record("shutdown")

"""Shared scheduler run for C01-C05/C52: generate graph + configuration, run one
real dask entry point under the E1 simulator, return everything observed."""
from __future__ import annotations

from sim import graphgen as gg
from sim import taskfns
from sim.core import dg, exc_site
from sim.models.refsched import RefModel
from sim.pin import HarnessError, tripwire
from sim.simexec import POLICIES, Sim, SimDeadlock, SimHang

ENTRIES = ("async", "threaded", "mp", "mp_noopt", "apply_async", "async", "threaded", "sync")
CHUNKS = (None, 1, 1, 2, 3, 6, -1)


def gen_cfg(tape, entries=ENTRIES):
    with tape.span("cfg"):
        cfg = {
            "entry": tape.choice(entries, "entry"),
            "num_workers": 1 + tape.draw(8, "nw"),
            "chunksize": tape.choice(CHUNKS, "chunk"),
            "policy": tape.choice(POLICIES, "policy"),
        }
    return cfg


class Recorder:
    """A callback 5-tuple that records the protocol and watches the scheduler
    state after every scheduler step (existing seam: callbacks get `state`)."""

    def __init__(self, log, requested, name="rec"):
        self.log = log
        self.name = name
        self.requested = set(requested)
        self.dsk = None
        self.state = None
        self.model = None
        self.problems = []      # (oracle, message)
        self.final = None
        self.abstract = set()
        self.max_cache = 0
        self.probes = {}
        self.clock = None
        self.times = {}

    def tuple(self):
        return (self.start, self.start_state, self.pretask, self.posttask, self.finish)

    # -- protocol
    def start(self, dsk):
        self.dsk = dsk
        self.log.append(("cb", self.name, "start"))

    def start_state(self, dsk, state):
        self.state = state
        self.log.append(("cb", self.name, "start_state"))
        deps = {}
        for k, t in dsk.items():
            try:
                deps[k] = set(t.dependencies)
            except AttributeError:
                deps[k] = set()
        self.model = RefModel(deps, self.requested)
        for k in state["cache"]:
            self.model.produce(k)
        self._watch("start_state")

    def pretask(self, key, dsk, state):
        self.log.append(("cb", self.name, "pretask", key))
        if self.clock is not None:
            self.times[("pre", key)] = self.clock.now()
        for d in state["dependencies"].get(key, ()):
            if d not in state["cache"]:
                self.problems.append(("released_early",
                                      f"pretask {key!r}: dependency {d!r} not in cache"))

    def posttask(self, key, result, dsk, state, worker_id):
        self.log.append(("cb", self.name, "posttask", key))
        if self.clock is not None:
            self.times[("post", key)] = self.clock.now()
        if self.model is not None:
            self.model.finish(key)
        self._watch(("posttask", key))

    def finish(self, dsk, state, failed):
        self.log.append(("cb", self.name, "finish", bool(failed)))
        self.final = {
            "failed": bool(failed),
            "cache": set(state.get("cache", ())),
            "released": set(state.get("released", ())),
            "finished": set(state.get("finished", ())),
        }

    # -- invariants after every scheduler step
    def _watch(self, where):
        st, m = self.state, self.model
        if st is None or m is None:
            return
        cache = st["cache"]
        self.abstract.add((len(st["waiting"]), len(st["ready"]), len(st["running"]),
                           len(cache)))
        if len(cache) > self.max_cache:
            self.max_cache = len(cache)
        if not st["ready"] and st["running"]:
            self.probes["ready_empty_while_running"] = \
                self.probes.get("ready_empty_while_running", 0) + 1
        missing = [k for k in m.must_hold() if k not in cache]
        if missing:
            self.problems.append(("released_early",
                                  f"at {where!r}: still needed but not in cache: {missing!r}"))
        bad = [k for k in st["released"] if k not in m.may_release()]
        if bad:
            self.problems.append(("released_early",
                                  f"at {where!r}: released while needed: {bad!r}"))
        if st["released"]:
            self.probes["released_some"] = 1


class Obs:
    pass


def run_graph(tape, spec, request, cfg, faults=None, fail=None, recorders=None,
              use_clock=False, extra_ctx=None, callbacks_kw=False, step_cap=None, clock=None,
              extra_kw=None):
    """Run one scheduler call.  `request` uses real keys.  extra_kw: further keyword
    arguments of the entry point (e.g. cache=<mapping>)."""
    import dask
    import dask.local
    import dask.multiprocessing
    import dask.threaded

    dsk = gg.build(spec)
    taskfns.reset()
    log = taskfns.RUN["log"]
    taskfns.RUN["fail"] = dict(fail or {})
    requested = set(gg.flatten_request(request))
    rec = Recorder(log, requested)
    nn = len(spec["nodes"])
    sim = Sim(tape, max_workers=cfg["num_workers"], policy=cfg["policy"], faults=faults,
              use_clock=use_clock, step_cap=step_cap or (16 * nn + 64), clock=clock)
    rec.clock = sim.clock if sim.use_clock else None
    obs = Obs()
    obs.sim, obs.rec, obs.log, obs.dsk = sim, rec, log, dsk
    obs.value = obs.exc = None
    entry = cfg["entry"]
    kw = dict(extra_kw or {})
    if cfg["chunksize"] is not None:
        kw["chunksize"] = cfg["chunksize"]
    cbs = [rec.tuple()] + [r.tuple() for r in (recorders or [])]
    from dask.callbacks import add_callbacks

    taskfns.RUN["active"] = True
    try:
        with tripwire(), sim:
            try:
                ctx = add_callbacks(*cbs) if not callbacks_kw else _null()
                if callbacks_kw:
                    kw["callbacks"] = cbs
                with ctx:
                    if entry == "sync":
                        obs.value = dask.get(dsk, request, **kw)
                    elif entry == "async":
                        obs.value = dask.local.get_async(
                            sim.executor.submit, cfg["num_workers"], dsk, request, **kw)
                    elif entry == "threaded":
                        obs.value = dask.threaded.get(dsk, request, pool=sim.executor, **kw)
                    elif entry in ("mp", "mp_noopt"):
                        obs.value = dask.multiprocessing.get(
                            dsk, request, pool=sim.executor,
                            optimize_graph=(entry == "mp"), **kw)
                    elif entry == "apply_async":
                        # a multiprocessing.pool-shaped pool, used the way dask.threaded.get uses one:
                        # failures travel back packed (a worker of such a pool only survives Exception)
                        obs.value = dask.local.get_apply_async(
                            sim.apply_async, cfg["num_workers"], dsk, request,
                            **dict({"pack_exception": dask.threaded.pack_exception}, **kw))
                    else:
                        raise HarnessError(entry)
            except HarnessError:
                raise
            except BaseException as e:  # noqa: BLE001 - KeyboardInterrupt etc. are data here
                obs.exc = e
    finally:
        taskfns.RUN["active"] = False
    return obs


COLLECTION_ENTRIES = ("threaded", "async", "mp", "mp_noopt", "sync")


def make_get(sim, entry, num_workers=None, chunksize=None):
    """A `scheduler=` callable running the real entry point on the E1 simulator."""
    import dask
    import dask.local
    import dask.multiprocessing
    import dask.threaded

    nw = num_workers or sim.max_workers
    kw0 = {}
    if chunksize is not None:
        kw0["chunksize"] = chunksize

    def get(dsk, keys, **kw):
        kw = dict(kw0, **kw)
        kw.pop("num_workers", None)
        kw.pop("pool", None)
        if entry == "sync":
            return dask.local.get_sync(dsk, keys, **kw)
        if entry == "async":
            return dask.local.get_async(sim.executor.submit, nw, dsk, keys, **kw)
        if entry == "threaded":
            return dask.threaded.get(dsk, keys, pool=sim.executor, **kw)
        if entry in ("mp", "mp_noopt"):
            return dask.multiprocessing.get(dsk, keys, pool=sim.executor,
                                            optimize_graph=(entry == "mp"), **kw)
        raise HarnessError(entry)

    get.__name__ = f"sim_{entry}_get"
    return get


class SimRun:
    """Context: one E1 simulation + tripwire, usable for several computes."""

    def __init__(self, tape, entry=None, num_workers=None, policy=None, chunksize=None,
                 faults=None, step_cap=20000, clock=None):
        with tape.span("simrun"):
            self.entry = entry or tape.choice(COLLECTION_ENTRIES, "entry")
            self.num_workers = num_workers or 1 + tape.draw(8, "nw")
            self.policy = policy or tape.choice(POLICIES, "policy")
            self.chunksize = chunksize if chunksize is not None else \
                (None, 1, 2, 6, -1)[tape.draw(5, "chunk")]
        self.sim = Sim(tape, max_workers=self.num_workers, policy=self.policy, faults=faults,
                       step_cap=step_cap, clock=clock)
        self.get = make_get(self.sim, self.entry, self.num_workers, self.chunksize)
        self._tw = tripwire()

    def describe(self):
        return {"entry": self.entry, "num_workers": self.num_workers, "policy": self.policy,
                "chunksize": self.chunksize}

    def __enter__(self):
        self._tw.__enter__()
        self.sim.__enter__()
        return self

    def __exit__(self, *a):
        self.sim.__exit__(*a)
        self._tw.__exit__(*a)
        return False


class _null:
    def __enter__(self):
        return self

    def __exit__(self, *a):
        return False


def describe_exc(e):
    return {"exc_type": type(e).__name__, "site": exc_site(e), "msg": str(e)[:300]}


def workload_digest(spec, request, cfg):
    return dg((spec, request, cfg["entry"], cfg["num_workers"], cfg["chunksize"]))


def decoded(spec, request, cfg, **extra):
    d = {"graph": spec, "request": request, "cfg": cfg}
    d.update(extra)
    return d


def is_sim_abort(e):
    return isinstance(e, (SimHang, SimDeadlock))

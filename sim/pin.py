"""Determinism pinning, repo selection, tripwires, snapshots of dask globals."""
from __future__ import annotations

import copy
import gc
import os
import random
import sys
import uuid as _uuid

VERIF_DIR = os.path.dirname(os.path.dirname(os.path.abspath(__file__)))
REPO = os.environ.get("VERIF_REPO", "/repo")


class HarnessError(Exception):
    """A failure of the verification machinery itself (never a VIOLATION)."""


_setup_done = False


def setup_repo(need_dataframe=False, need_cachey=False):
    """Import dask from $VERIF_REPO's working tree (nothing cached)."""
    global _setup_done
    sys.dont_write_bytecode = True
    if VERIF_DIR not in sys.path:
        sys.path.insert(0, VERIF_DIR)
    if sys.path[0] != REPO:
        sys.path.insert(0, REPO)
    import dask

    got = os.path.realpath(os.path.dirname(os.path.dirname(dask.__file__)))
    if got != os.path.realpath(REPO):
        raise HarnessError(f"dask imported from {got}, wanted {REPO}")
    if need_cachey:
        p = os.path.join(VERIF_DIR, "sim", "stubs", "cachey_stub")
        if p not in sys.path:
            sys.path.append(p)
    if need_dataframe:
        import pandas  # noqa: F401  (must precede the pyarrow stub)
        import numpy  # noqa: F401

        try:
            import pyarrow  # noqa: F401
        except ImportError:
            p = os.path.join(VERIF_DIR, "sim", "stubs", "pyarrow_stub")
            sys.path.append(p)
            import pyarrow  # noqa: F401
        dask.config.set({"dataframe.convert-string": False})
        import dask.dataframe  # noqa: F401
    if not _setup_done:
        gc.disable()
        install_entropy_seams()
        _setup_done = True
    return dask


# ---------------------------------------------------------------------------
# entropy seams: uuid, random, numpy global + OS entropy for unseeded generators

_entropy = {"rng": random.Random(0)}
_orig = {}


def _uuid4():
    return _uuid.UUID(int=_entropy["rng"].getrandbits(128), version=4)


def _uuid1(node=None, clock_seq=None):
    return _uuid.UUID(int=_entropy["rng"].getrandbits(128), version=1)


def _randbits(k):
    return _entropy["rng"].getrandbits(k)


def install_entropy_seams():
    _orig["uuid4"], _orig["uuid1"] = _uuid.uuid4, _uuid.uuid1
    _uuid.uuid4 = _uuid4
    _uuid.uuid1 = _uuid1
    # modules that imported the names directly
    for modname in ("dask.dataframe.io.utils",):
        m = sys.modules.get(modname)
        if m is not None and hasattr(m, "uuid4"):
            m.uuid4 = _uuid4
    try:
        import numpy.random.bit_generator as bg

        if hasattr(bg, "randbits"):
            _orig["randbits"] = bg.randbits
            bg.randbits = _randbits
    except Exception:  # pragma: no cover
        pass


def reseed(tape_seed):
    """Per-run: every secondary entropy source restarts from the run seed."""
    _entropy["rng"] = random.Random(f"{tape_seed}/entropy")
    random.seed(f"{tape_seed}/global-random")
    np = sys.modules.get("numpy")
    if np is not None:
        np.random.seed(tape_seed % (2**32))
    m = sys.modules.get("dask.dataframe.io.utils")
    if m is not None and getattr(m, "uuid4", None) is not _uuid4 and _setup_done:
        m.uuid4 = _uuid4


# ---------------------------------------------------------------------------
# tripwire: a real pool must never be created while a simulation is active


def _no_real_pool(*a, **k):
    raise HarnessError("real pool created during simulation")


class tripwire:
    def __enter__(self):
        import dask.multiprocessing as dm
        import dask.threaded as dt

        self.saved = (dt.ContextAwareThreadPoolExecutor, dm.ProcessPoolExecutor)
        dt.ContextAwareThreadPoolExecutor = _no_real_pool
        dm.ProcessPoolExecutor = _no_real_pool
        return self

    def __exit__(self, *a):
        import dask.multiprocessing as dm
        import dask.threaded as dt

        dt.ContextAwareThreadPoolExecutor, dm.ProcessPoolExecutor = self.saved
        return False


# ---------------------------------------------------------------------------
# snapshots of process-global dask state


def snapshot_globals():
    import dask
    from dask.callbacks import Callback

    snap = {
        "callbacks": set(Callback.active),
        "config": copy.deepcopy(dask.config.config),
    }
    return snap


def restore_globals(snap):
    """Restore and return the list of names that had drifted."""
    import dask
    from dask.callbacks import Callback

    drift = []
    if set(Callback.active) != snap["callbacks"]:
        drift.append("Callback.active")
        Callback.active = set(snap["callbacks"])
    if dask.config.config != snap["config"]:
        drift.append("config")
        dask.config.config.clear()
        dask.config.config.update(copy.deepcopy(snap["config"]))
    return drift


def collect_garbage():
    gc.collect()
    try:
        from dask._expr import SingletonExpr

        inst = getattr(SingletonExpr, "_instances", None)
        if inst is not None:
            inst.clear()
    except Exception:  # pragma: no cover
        pass
    # other process-global caches of dask that change behaviour between a cold and a warm
    # process: computed divisions (skips the hidden quantile compute on a hit) and the cached
    # module-level RandomState behind da.random.<function>
    m = sys.modules.get("dask.dataframe.dask_expr._shuffle")
    # (best effort: a change to dask may have given these another shape; the harness must not fail
    # on that -- whatever state then survives is covered by the run-history replay)
    try:
        if m is not None and hasattr(m, "divisions_lru"):
            m.divisions_lru.data.clear()
    except Exception:  # noqa: BLE001
        pass
    m = sys.modules.get("dask.array.random")
    try:
        if m is not None and hasattr(m, "_cached_states"):
            cs = m._cached_states
            if hasattr(cs, "clear"):
                cs.clear()
            elif hasattr(cs, "__dict__"):
                cs.__dict__.clear()
    except Exception:  # noqa: BLE001
        pass

"""The choice tape: the single source of every simulated decision.

A run is a pure function of (tape values, code under test).  In record mode the
values come from random.Random(seed); in replay mode from a recorded list
(clamped to the legal range, 0 past the end — 0 is always the "simplest"
choice by convention of every caller).  Draws are grouped in spans so that the
shrinker can delete or zero whole structural units (a graph node, an operation
of a history, a fault, a scheduling decision).
"""
from __future__ import annotations

import hashlib
import random
import time


class Tape:
    __slots__ = ("seed", "rng", "replay", "pos", "values", "bounds", "labels",
                 "spans", "_open", "mode")

    def __init__(self, seed=None, replay=None):
        self.seed = seed
        self.mode = "replay" if replay is not None else "record"
        self.rng = random.Random(seed) if replay is None else None
        self.replay = list(replay) if replay is not None else None
        self.pos = 0
        self.values = []  # normalised values actually used
        self.bounds = []
        self.labels = []
        self.spans = []  # (kind, start, end) closed spans, in closing order
        self._open = []

    # -- primitive ---------------------------------------------------------
    def draw(self, n, label=""):
        """Integer in [0, n).  n <= 1 consumes nothing."""
        if n <= 1:
            return 0
        if self.replay is None:
            v = self.rng.randrange(n)
        else:
            if self.pos < len(self.replay):
                v = self.replay[self.pos]
                if v >= n:
                    v = n - 1
                elif v < 0:
                    v = 0
            else:
                v = 0
        self.pos += 1
        self.values.append(v)
        self.bounds.append(n)
        self.labels.append(label)
        return v

    # -- helpers -----------------------------------------------------------
    def chance(self, num, den, label=""):
        """True with probability num/den; False is the simple choice (0)."""
        if num <= 0:
            return False
        return self.draw(den, label) >= den - num

    def choice(self, seq, label=""):
        return seq[self.draw(len(seq), label)]

    def weighted(self, pairs, label=""):
        """pairs: [(weight, item)]; first item is the simple one."""
        tot = sum(w for w, _ in pairs)
        v = self.draw(tot, label)
        for w, it in pairs:
            if v < w:
                return it
            v -= w
        return pairs[-1][1]

    def int_between(self, lo, hi, label=""):
        return lo + self.draw(hi - lo + 1, label)

    def shuffle(self, seq, label=""):
        seq = list(seq)
        for i in range(len(seq) - 1, 0, -1):
            j = i - self.draw(i + 1, label)  # 0 => keep in place
            seq[i], seq[j] = seq[j], seq[i]
        return seq

    def subset(self, seq, num=1, den=2, label=""):
        return [x for x in seq if self.chance(num, den, label)]

    # -- spans ---------------------------------------------------------------
    def span(self, kind):
        return _Span(self, kind)

    def sub_rng(self, name):
        """Secondary PRNG for randomness consumed by the code under test
        (uuid, random, numpy entropy); never shifts tape positions."""
        base = self.seed if self.seed is not None else 0
        return random.Random(f"{base}/{name}")


class _Span:
    __slots__ = ("t", "kind", "start")

    def __init__(self, t, kind):
        self.t = t
        self.kind = kind

    def __enter__(self):
        self.start = self.t.pos
        return self

    def __exit__(self, *a):
        if self.t.pos > self.start:
            self.t.spans.append((self.kind, self.start, self.t.pos))
        return False


def derive_seed(*parts):
    h = hashlib.blake2b("/".join(str(p) for p in parts).encode(), digest_size=8)
    return int.from_bytes(h.digest(), "big") >> 1


# ---------------------------------------------------------------------------
# shrinking


def shrink(values, spans, still_fails, max_runs=600, max_seconds=45.0):
    """Minimise a failing tape.

    still_fails(values) -> (bool, normalised_values, spans) runs the candidate
    and says whether the same violation class persists.  Passes: delete spans
    (largest first), zero spans, delete tails, lower single values.
    """
    t0 = time.monotonic()
    runs = 0
    best = list(values)
    best_spans = list(spans)

    def budget():
        return runs < max_runs and time.monotonic() - t0 < max_seconds

    def attempt(cand):
        nonlocal runs, best, best_spans
        if cand == best:
            return False
        runs += 1
        ok, norm, sp = still_fails(cand)
        if ok:
            # prefer the normalised tape when it is not longer
            if len(norm) <= len(cand):
                best, best_spans = list(norm), list(sp)
            else:
                best, best_spans = list(cand), list(sp)
            return True
        return False

    improved = True
    while improved and budget():
        improved = False
        # 0. truncate tail (replay past the end yields zeros)
        n = len(best)
        step = max(1, n // 2)
        while step >= 1 and budget():
            if len(best) > step and attempt(best[: len(best) - step]):
                improved = True
            else:
                step //= 2
        # 1. delete spans, largest first
        for kind, s, e in sorted(best_spans, key=lambda x: x[1] - x[2]):
            if not budget():
                break
            if e > len(best) or e - s <= 0:
                continue
            if attempt(best[:s] + best[e:]):
                improved = True
                break  # spans changed; restart
        if improved:
            continue
        # 2. zero spans
        for kind, s, e in sorted(best_spans, key=lambda x: x[1] - x[2]):
            if not budget():
                break
            if e > len(best) or not any(best[s:e]):
                continue
            if attempt(best[:s] + [0] * (e - s) + best[e:]):
                improved = True
        # 3. lower single values
        i = 0
        while i < len(best) and budget():
            v = best[i]
            if v > 0:
                if attempt(best[:i] + [0] + best[i + 1:]):
                    improved = True
                elif v > 1 and attempt(best[:i] + [v // 2] + best[i + 1:]):
                    improved = True
                elif v > 1 and attempt(best[:i] + [v - 1] + best[i + 1:]):
                    improved = True
            i += 1
    while best and best[-1] == 0:
        best.pop()
    return best, runs

"""Driver: fan seeds out over worker processes, confirm violations by replaying
them in a fresh interpreter, print VIOLATION / KNOWN-FINDING lines, write
evidence.  Exit codes: 0 held, 1 VIOLATION (replayed), 2 harness error."""
from __future__ import annotations

import hashlib
import json
import os
import shutil
import subprocess
import sys
import tempfile
import time

VERIF_DIR = os.path.dirname(os.path.dirname(os.path.abspath(__file__)))
PY = sys.executable
HASHSEEDS = ["0", "1", "2", "3", "17", "101", "4242", "6640"]


def _repo():
    return os.environ.get("VERIF_REPO", "/repo")


def repo_state(files):
    repo = _repo()
    try:
        head = subprocess.run(["git", "-C", repo, "rev-parse", "HEAD"], capture_output=True,
                              text=True, timeout=20).stdout.strip()
    except Exception:
        head = "?"
    h = hashlib.sha256()
    for f in files:
        try:
            with open(os.path.join(repo, f), "rb") as fh:
                h.update(fh.read())
        except OSError:
            h.update(b"missing:" + f.encode())
    return head, h.hexdigest()[:16]


def spawn(args, hashseed, scratch):
    env = dict(os.environ)
    env["PYTHONHASHSEED"] = hashseed
    env["PYTHONDONTWRITEBYTECODE"] = "1"
    env["VERIF_SCRATCH"] = scratch
    env.setdefault("OMP_NUM_THREADS", "1")
    env.setdefault("OPENBLAS_NUM_THREADS", "1")
    env.setdefault("MKL_NUM_THREADS", "1")
    cmd = [PY, "-X", "faulthandler", os.path.join(VERIF_DIR, "check"), "--internal",
           json.dumps(args)]
    return subprocess.Popen(cmd, env=env, cwd=scratch, stdout=subprocess.PIPE,
                            stderr=subprocess.STDOUT, text=True)


def fresh_replay(path, hashseed, scratch, timeout=300, with_history=False):
    env = dict(os.environ)
    env["PYTHONHASHSEED"] = hashseed or "0"
    env["PYTHONDONTWRITEBYTECODE"] = "1"
    env["VERIF_SCRATCH"] = scratch
    cmd = [PY, os.path.join(VERIF_DIR, "check"), "--internal",
           json.dumps({"mode": "replay", "replay": path, "with_history": with_history})]
    try:
        p = subprocess.run(cmd, env=env, cwd=scratch, capture_output=True, text=True,
                           timeout=timeout)
    except subprocess.TimeoutExpired:
        return None, "replay timed out"
    for line in p.stdout.splitlines():
        if line.startswith("REPLAY-RESULT "):
            return json.loads(line[len("REPLAY-RESULT "):]), p.stdout + p.stderr
    return None, p.stdout + p.stderr


def rule_addendum(pid):
    """Workloads added after a check's META['rule'] was written (checks/extra_gates.json)."""
    try:
        with open(os.path.join(VERIF_DIR, "checks", "extra_gates.json")) as f:
            add = json.load(f).get("rule_addenda", {}).get(pid)
    except FileNotFoundError:
        add = None
    return f"; later additions: {add}" if add else ""


def validate_evidence(ev):
    need = ["property_id", "tier", "seed", "level", "coverage", "wall_s"]
    for k in need:
        if k not in ev:
            return f"missing {k}"
    cov = ev["coverage"]
    if ev["level"] in ("exploration", "fault_enumeration"):
        for k in ("evaluations", "distinct_nontrivial", "rule", "samples"):
            if k not in cov:
                return f"coverage missing {k}"
        if cov["evaluations"] < 1 or cov["distinct_nontrivial"] < 2 or not cov["samples"]:
            return "coverage counts too small"
    return None


def run_check(pid, tier, base_seed, jobs, mod_meta):
    t0 = time.time()
    scratch_root = "/dev/shm" if os.path.isdir("/dev/shm") else tempfile.gettempdir()
    scratch = tempfile.mkdtemp(prefix=f"dask-verif-{pid}-", dir=scratch_root)
    rc = 2
    try:
        rc = _run_check(pid, tier, base_seed, jobs, mod_meta, scratch, t0)
    finally:
        shutil.rmtree(scratch, ignore_errors=True)
    return rc


def _run_check(pid, tier, base_seed, jobs, meta, scratch, t0):
    budget = dict(meta["budget"][tier])
    if os.environ.get("VERIF_BUDGET_SECONDS"):      # for smoke-testing a tier; not used by MANIFEST commands
        budget["seconds"] = int(os.environ["VERIF_BUDGET_SECONDS"])
    procs = []
    for w in range(jobs):
        wdir = os.path.join(scratch, f"w{w}")
        os.makedirs(wdir)
        out = os.path.join(wdir, "result.json")
        args = {"mode": "worker", "property": pid, "tier": tier, "base_seed": base_seed,
                "worker": w, "budget_s": budget["seconds"], "max_runs": budget["runs"],
                "out": out, "hard_timeout": budget["seconds"] * 4 + 300,
                "shrink_s": budget.get("shrink_s", 40)}
        hs = HASHSEEDS[w % len(HASHSEEDS)]
        procs.append((w, hs, out, spawn(args, hs, wdir)))
    results, harness_errors = [], []
    deadline = time.time() + budget["seconds"] * 4 + 400
    for w, hs, out, p in procs:
        try:
            stdout, _ = p.communicate(timeout=max(5, deadline - time.time()))
        except subprocess.TimeoutExpired:
            p.kill()
            stdout, _ = p.communicate()
            harness_errors.append(f"worker {w}: wall timeout\n{stdout[-3000:]}")
            continue
        if not os.path.exists(out):
            harness_errors.append(f"worker {w} (rc={p.returncode}) wrote no result\n{stdout[-3000:]}")
            continue
        with open(out) as f:
            r = json.load(f)
        r["hashseed"] = hs
        if r.get("harness_error"):
            harness_errors.append(f"worker {w}: {r['harness_error']}")
        results.append(r)

    # ---- aggregate
    agg = {"evaluations": 0, "probes": {}, "faults": {}, "policies": {}, "classes": {},
           "info": {}, "known_hits": {}, "sim_time": 0.0, "discards": 0}
    digests, nontriv, abstract = set(), set(), set()
    samples, seeds, violations = [], [], []
    for r in results:
        agg["evaluations"] += r["evaluations"]
        agg["discards"] += r.get("discards", 0)
        agg["sim_time"] += r["sim_time"]
        for name in ("probes", "faults", "policies", "classes", "info", "known_hits"):
            for k, v in r[name].items():
                agg[name][k] = agg[name].get(k, 0) + v
        digests.update(r["digests"])
        nontriv.update(r["nontrivial_digests"])
        abstract.update(r["abstract"])
        samples.extend(r["samples"][:1])
        seeds.extend(r["seeds"][:2])
        violations.extend((r["hashseed"], v) for v in r["violations"])

    # ---- violations: confirm each by replaying in a fresh interpreter
    confirmed = []
    for hs, v in violations:
        rr, raw = fresh_replay(v["replay"], hs, scratch)
        with open(v["replay"]) as f:
            rf = json.load(f)
        if rr is None or rr["status"] != "violation" or rr["oracle"] != rf["oracle"] \
                or rr["digest"] != rf["event_log_digest"]:
            # Not reproducible from its own tape alone.  The run may depend on state that earlier
            # runs of the same worker left in the process (e.g. a cache inside the code under
            # test): re-execute that worker's run sequence up to this run in a fresh interpreter.
            h = rf.get("history")
            if h:
                rr2, raw2 = fresh_replay(v["replay"], hs, scratch, timeout=1200, with_history=True)
                if rr2 is not None and rr2["status"] == "violation" \
                        and rr2["oracle"] == h["oracle_unshrunk"] and rr2["digest"] == h["digest_unshrunk"]:
                    rf["needs_history"] = True
                    rf["oracle"], rf["message"] = rr2["oracle"], rr2["message"]
                    rf["details"], rf["event_log_digest"] = rr2["details"], rr2["digest"]
                    rf["note"] = ("depends on process state left by earlier runs of the same worker; the "
                                  "replay re-executes runs 0..index of that worker (the shrunk tape alone "
                                  "does not reproduce it)")
                    with open(v["replay"], "w") as f:
                        json.dump(rf, f, indent=1)
                    v = dict(v, oracle=rr2["oracle"], message=rr2["message"] + " [needs run history]")
                    confirmed.append(v)
                    continue
            harness_errors.append(
                f"violation seed={v['seed']} did not reproduce in a fresh interpreter: "
                f"{rr!r}\n{raw[-2000:]}")
            continue
        confirmed.append(v)

    # ---- sanity gates (a check that explored nothing must not be green)
    gate_msgs = []
    if not harness_errors and not confirmed:
        gates = dict(meta.get("gates", {}).get(tier, {}))
        try:    # gates of workloads added later are kept in one place: checks/extra_gates.json
            with open(os.path.join(VERIF_DIR, "checks", "extra_gates.json")) as f:
                gates.update(json.load(f).get(pid, {}).get(tier, {}))
        except FileNotFoundError:
            pass
        for name, minimum in gates.items():
            got = agg["probes"].get(name, agg["faults"].get(name, 0))
            if got < minimum:
                gate_msgs.append(f"probe {name}={got} < {minimum}")
        if agg["evaluations"] == 0:
            gate_msgs.append("no evaluations")

    wall = time.time() - t0
    head, anchor_hash = repo_state(meta.get("anchors", []))
    kf_lines = []
    known_all = _load_known_all()
    for kid, n in sorted(agg["known_hits"].items()):
        e = known_all.get(kid, {})
        kf_lines.append(f"KNOWN-FINDING: property={pid} {e.get('what', kid)} [id={kid}, hit {n}x]")
    evidence = {
        "property_id": pid,
        "tier": tier,
        "seed": base_seed,
        "level": meta.get("level", "exploration"),
        "coverage": {
            "evaluations": agg["evaluations"],
            "distinct_nontrivial": len(nontriv),
            "distinct_total": len(digests),
            "rule": meta["rule"] + rule_addendum(pid),
            "samples": samples[:4] or [{"note": "no non-trivial sample recorded"}],
            "runs_per_hour": int(agg["evaluations"] / max(wall, 1e-6) * 3600),
            "seeds": {"base": base_seed, "derivation": "blake2b(base/property/worker/i)",
                      "first": seeds[:8]},
            "sim_time_covered": round(agg["sim_time"], 1),
            "faults_fired": agg["faults"],
            "policies": agg["policies"],
            "run_classes": agg["classes"],
            "probes": agg["probes"],
            "informational": agg["info"],
            "abstract_states": len(abstract),
            "abstract_state_measure": meta.get("abstract_measure", ""),
            "discarded_runs": agg["discards"],
            "known_findings_hit": agg["known_hits"],
            "real_components": meta.get("real", []),
            "stubbed_components": meta.get("stubbed", []),
            "hashseeds": sorted({r["hashseed"] for r in results}),
            "workers": len(results),
            "repo_head": head,
            "anchor_files_sha256_16": anchor_hash,
        },
        "assumptions": meta.get("assumptions", []),
        "wall_s": round(wall, 2),
        "violations": len(confirmed),
    }
    bad = validate_evidence(evidence)
    odir = os.path.join(os.environ.get("VERIF_OUT_DIR") or VERIF_DIR, "evidence")
    os.makedirs(odir, exist_ok=True)
    with open(os.path.join(odir, f"{pid}.json"), "w") as f:
        json.dump(evidence, f, indent=1, sort_keys=True)
        f.write("\n")

    print(f"[{pid}] tier={tier} seed={base_seed} runs={agg['evaluations']} "
          f"distinct_nontrivial={len(nontriv)} faults={agg['faults']} wall={wall:.1f}s")
    for line in kf_lines:
        print(line)
    if confirmed:
        for v in confirmed:
            print(f"  oracle={v['oracle']}: {v['message'][:300]}")
            print(f"VIOLATION property={pid} replay={v['replay']}")
        return 1
    if harness_errors:
        for h in harness_errors[:5]:
            print("HARNESS-ERROR " + h[:3000])
        return 2
    if gate_msgs or bad:
        print("HARNESS-ERROR sanity gate: " + "; ".join(gate_msgs + ([bad] if bad else [])))
        return 2
    print(f"[{pid}] OK")
    return 0


def _load_known_all():
    try:
        with open(os.path.join(VERIF_DIR, "known_findings.json")) as f:
            return {e["id"]: e for e in json.load(f).get("findings", [])}
    except FileNotFoundError:
        return {}


def replay_cli(path):
    scratch_root = "/dev/shm" if os.path.isdir("/dev/shm") else tempfile.gettempdir()
    scratch = tempfile.mkdtemp(prefix="dask-verif-replay-", dir=scratch_root)
    try:
        with open(path) as f:
            rf = json.load(f)
        rr, raw = fresh_replay(os.path.abspath(path), rf.get("hashseed", "0"), scratch)
        if rr is None:
            print("HARNESS-ERROR replay failed\n" + raw[-3000:])
            return 2
        print(json.dumps(rr, indent=1))
        if rr["status"] == "violation" and not rr.get("known"):
            same = rr["oracle"] == rf["oracle"] and rr["digest"] == rf["event_log_digest"]
            print(f"VIOLATION property={rf['property']} replay={path}"
                  + ("" if same else " (differs from recorded run)"))
            return 1
        if rr["status"] == "violation":
            print(f"KNOWN-FINDING: property={rf['property']} id={rr['known']}")
        return 0
    finally:
        shutil.rmtree(scratch, ignore_errors=True)

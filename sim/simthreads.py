"""Engine E2: baton-passing real threads.

Every simulated thread is a real threading.Thread (real thread-locals,
contextvars, exc_info), parked on its own semaphore.  Exactly one holds the
baton; at every yield point it hands the baton back to the scheduler (the
controlling thread), which picks the next runnable thread from the tape.
Only "who runs next" is simulated — which is what makes a run replay.

Yield points: SimLock/SimRLock acquire/release, the completion queue of
dask.local.get_async (queue_get), SimThreadPool work items, SimFS / SimTarget
operations (they call yield_now), and optional sys.settrace line pre-emption
in named files.
"""
from __future__ import annotations

import hashlib
import sys
import threading
from concurrent.futures import Executor, Future

from sim import simexec
from sim.pin import HarnessError


class SimAbort(BaseException):
    """Raised inside simulated threads to unwind them when a run is torn down."""


class SimThreadDeadlock(Exception):
    pass


class SimThread:
    __slots__ = ("name", "fn", "thread", "resume", "done", "result", "exc", "pred",
                 "wait_label", "daemon", "id", "started", "serving", "nblocks")

    def __init__(self, id, name, fn, daemon):
        self.id = id
        self.name = name
        self.fn = fn
        self.resume = threading.Semaphore(0)
        self.done = False
        self.result = None
        self.exc = None
        self.pred = None
        self.wait_label = None
        self.daemon = daemon
        self.thread = None
        self.started = False
        self.serving = None  # pool workers: the simulated thread whose job is being run
        self.nblocks = 0     # how often this thread had to wait in block_until


def cur():
    return getattr(threading.current_thread(), "_sim_thread", None)


def active():
    return simexec.THREADS[0]


def yield_now(label=""):
    """Pre-emption point usable from any code; no-op outside a simulation."""
    s = simexec.THREADS[0]
    if s is not None:
        me = cur()
        if me is not None:
            s.yield_point(label)


class SimThreads:
    POLICIES = ("random", "sticky", "roundrobin", "pct", "starve")

    def __init__(self, tape, policy=None, step_cap=50000, trace_files=None, trace_den=0):
        self.tape = tape
        self.policy = policy or "random"
        self.threads = []
        self.ctl = threading.Semaphore(0)
        self.aborting = False
        self.stopping = False
        self.steps = 0
        self.step_cap = step_cap
        self.log = []
        self.switches = 0
        self.last = None
        self.deadlock = None
        self.hang = False
        self.probes = {}
        self.trace_files = tuple(trace_files or ())
        self.trace_den = trace_den  # pre-empt at a traced line with probability 1/trace_den
        self.prio = {}
        self.starve_id = None
        self.invariants = []  # callables run by the scheduler between steps

    # ---- life cycle
    def __enter__(self):
        if simexec.THREADS[0] is not None or simexec.CURRENT[0] is not None:
            raise HarnessError("nested simulation")
        simexec.install()
        simexec.THREADS[0] = self
        return self

    def __exit__(self, *a):
        try:
            self._teardown()
        finally:
            simexec.THREADS[0] = None
        return False

    def record(self, *ev):
        self.log.append(ev)

    def digest(self):
        return hashlib.blake2b(repr(self.log).encode(), digest_size=8).hexdigest()

    def probe(self, name, n=1):
        self.probes[name] = self.probes.get(name, 0) + n

    # ---- threads
    def spawn(self, fn, name=None, daemon=False):
        st = SimThread(len(self.threads), name or f"t{len(self.threads)}", fn, daemon)
        self.threads.append(st)
        if self.policy == "pct":
            self.prio[st.id] = self.tape.draw(1000, "prio")
        th = threading.Thread(target=self._wrapper, args=(st,), name=f"sim-{st.name}",
                              daemon=True)
        th._sim_thread = st
        st.thread = th
        th.start()
        return st

    def _wrapper(self, st):
        st.resume.acquire()
        st.started = True
        tracer = self._make_tracer() if self.trace_files and self.trace_den else None
        try:
            if self.aborting:
                raise SimAbort()
            if tracer is not None:
                sys.settrace(tracer)
            st.result = st.fn()
        except SimAbort:
            pass
        except BaseException as e:  # noqa: BLE001
            st.exc = e
        finally:
            if tracer is not None:
                sys.settrace(None)
            st.done = True
            self.ctl.release()

    def _make_tracer(self):
        files = self.trace_files
        sched = self

        def local(frame, event, arg):
            if event == "line" and not sched.aborting:
                if sched.tape.draw(sched.trace_den, "preempt") == sched.trace_den - 1:
                    sched.probe("trace_preempt")
                    sched.yield_point("trace")
            return local

        def glob(frame, event, arg):
            fn = frame.f_code.co_filename
            for f in files:
                if fn.endswith(f):
                    return local
            return None

        return glob

    # ---- called from simulated threads
    def yield_point(self, label=""):
        me = cur()
        if me is None:
            return
        if self.aborting:
            raise SimAbort()
        self.ctl.release()
        me.resume.acquire()
        if self.aborting:
            raise SimAbort()

    def block_until(self, pred, label=""):
        me = cur()
        if me is None:
            raise HarnessError(f"block_until({label}) outside a simulated thread")
        if self.aborting:
            raise SimAbort()
        me.pred = pred
        me.wait_label = label
        me.nblocks += 1
        self.ctl.release()
        me.resume.acquire()
        me.pred = None
        me.wait_label = None
        if self.aborting:
            raise SimAbort()

    def queue_get(self, q):
        me = cur()
        if me is None:
            if q.empty():
                raise HarnessError("blocking queue_get on a non-simulated thread")
            return q.get()
        self.yield_point("queue_get")
        while q.empty():
            self.block_until(lambda: not q.empty(), "queue_get")
        return q.get_nowait()

    # ---- scheduler
    def _runnable(self):
        out = []
        for t in self.threads:
            if t.done:
                continue
            if t.pred is not None:
                try:
                    if not t.pred():
                        continue
                except Exception as e:  # noqa: BLE001
                    raise HarnessError(f"wait predicate raised: {e!r}")
            out.append(t)
        return out

    def _pick(self, runnable):
        if len(runnable) == 1:
            return runnable[0]
        p = self.policy
        if p == "sticky" and self.last in runnable:
            # keep running the same thread most of the time
            if self.tape.draw(4, "switch") != 3:
                return self.last
        if p == "roundrobin":
            if self.last in runnable:
                i = runnable.index(self.last)
                return runnable[(i + 1) % len(runnable)]
            return runnable[0]
        if p == "pct":
            if self.tape.draw(16, "pctchg") == 15:
                t = runnable[self.tape.draw(len(runnable), "pctwho")]
                self.prio[t.id] = -self.steps
            return max(runnable, key=lambda t: (self.prio.get(t.id, 0), -t.id))
        if p == "starve":
            if self.starve_id is None:
                self.starve_id = self.tape.draw(max(1, len(self.threads)), "starve")
            pool = [t for t in runnable if t.id != self.starve_id] or runnable
            return pool[self.tape.draw(len(pool), "th")]
        return runnable[self.tape.draw(len(runnable), "th")]

    def run(self):
        """Run until every non-daemon simulated thread finished.  Returns
        'ok' | 'deadlock' | 'hang'."""
        while True:
            if all(t.done for t in self.threads if not t.daemon):
                return "ok"
            runnable = self._runnable()
            if not runnable:
                self.deadlock = [(t.name, t.wait_label) for t in self.threads if not t.done]
                self.record("deadlock", tuple(self.deadlock))
                return "deadlock"
            self.steps += 1
            if self.steps > self.step_cap:
                self.hang = True
                self.record("hang")
                return "hang"
            t = self._pick(runnable)
            if t is not self.last:
                self.switches += 1
            self.last = t
            self.record("run", t.id)
            t.resume.release()
            if not self.ctl.acquire(timeout=120):
                raise HarnessError(f"simulated thread {t.name} did not yield within 120 s "
                                   f"(blocked outside a yield point?)")
            for inv in self.invariants:
                inv()

    def _teardown(self):
        self.aborting = True
        self.stopping = True
        for _ in range(200):
            live = [t for t in self.threads if not t.done]
            if not live:
                break
            for t in live:
                t.resume.release()
                if not self.ctl.acquire(timeout=30):
                    raise HarnessError(f"thread {t.name} did not unwind at teardown")
        else:
            raise HarnessError("threads still alive after teardown")
        for t in self.threads:
            t.thread.join(timeout=10)
            if t.thread.is_alive():
                raise HarnessError(f"leaked thread {t.name}")


# ---------------------------------------------------------------------------
# simulated locks


class SimLock:
    """threading.Lock stand-in; a real lock stays the source of truth."""

    def __init__(self):
        self._real = threading.Lock()
        self.contended = 0
        s = simexec.THREADS[0]
        if s is not None and cur() is not None:
            # a lock allocated by a running simulated thread: a scheduling point, so that
            # check-then-create sequences around it can interleave
            s.probe("lock_created_in_thread")
            s.yield_point("lock.create")

    def acquire(self, blocking=True, timeout=-1):
        s = simexec.THREADS[0]
        me = cur() if s is not None else None
        if me is None:
            if timeout is None or timeout < 0:
                return self._real.acquire(blocking)
            return self._real.acquire(blocking, timeout)
        s.yield_point("lock.acquire")
        if self._real.acquire(False):
            return True
        if not blocking:
            return False
        self.contended += 1
        s.probe("lock_contended")
        if timeout == 0:
            s.record("lock.timeout", me.id)     # a zero timeout never waits
            return False
        if timeout is not None and timeout >= 0:
            # a timed wait on a held lock: the tape decides whether the timeout
            # expires first (0 = it does) or the wait lasts until the lock is free
            if s.tape.draw(2, "timeout") == 0:
                s.record("lock.timeout", me.id)
                return False
        while True:
            s.block_until(lambda: not self._real.locked(), "lock")
            if self._real.acquire(False):
                return True

    def release(self):
        self._real.release()
        yield_now("lock.release")

    def locked(self):
        return self._real.locked()

    def __enter__(self):
        self.acquire()
        return self

    def __exit__(self, *a):
        self.release()
        return False


class SimRLock:
    def __init__(self):
        self._owner = None
        self._count = 0

    def acquire(self, blocking=True, timeout=-1):
        s = simexec.THREADS[0]
        me = cur() if s is not None else None
        ident = threading.get_ident()
        if self._owner == ident:
            self._count += 1
            return True
        if me is None:
            if self._owner is not None:
                raise HarnessError("SimRLock contended outside a simulation")
            self._owner, self._count = ident, 1
            return True
        s.yield_point("rlock.acquire")
        if self._owner is not None:
            if not blocking:
                return False
            s.probe("lock_contended")
            while self._owner is not None:
                s.block_until(lambda: self._owner is None, "rlock")
        self._owner, self._count = ident, 1
        return True

    def release(self):
        if self._owner != threading.get_ident():
            raise RuntimeError("cannot release un-acquired lock")
        self._count -= 1
        if self._count == 0:
            self._owner = None
            yield_now("rlock.release")

    def __enter__(self):
        self.acquire()
        return self

    def __exit__(self, *a):
        self.release()
        return False


# ---------------------------------------------------------------------------
# simulated thread pool


class SimThreadPool(Executor):
    """ThreadPoolExecutor stand-in: n simulated worker threads, FIFO work queue."""

    def __init__(self, sched, max_workers):
        self.sched = sched
        self._max_workers = max_workers or 4
        self.items = []
        self.workers = []
        self._shutdown = False
        self.running = 0
        self.max_running = 0
        self.max_queued = 0

    def submit(self, fn, /, *args, **kwargs):
        if self._shutdown:
            raise RuntimeError("cannot schedule new futures after shutdown")
        fut = Future()
        self.items.append((fut, fn, args, kwargs, cur()))
        self.sched.record("submit", len(self.items))
        self.max_queued = max(self.max_queued, len(self.items) + self.running)
        if len(self.workers) < self._max_workers:
            w = self.sched.spawn(self._worker, name=f"w{len(self.workers)}", daemon=True)
            self.workers.append(w)
        yield_now("submit")
        return fut

    def _worker(self):
        s = self.sched
        while True:
            s.block_until(lambda: bool(self.items) or self._shutdown or s.stopping, "idle")
            if not self.items:
                return
            fut, fn, args, kwargs, owner = self.items.pop(0)
            cur().serving = owner
            self.running += 1
            self.max_running = max(self.max_running, self.running)
            if self.running >= 2:
                s.probe("parallel_items")
            s.yield_point("item.start")
            try:
                res = fn(*args, **kwargs)
            except SimAbort:
                raise
            except BaseException as e:  # noqa: BLE001
                self.running -= 1
                s.yield_point("item.end")
                fut.set_exception(e)
            else:
                self.running -= 1
                s.yield_point("item.end")
                fut.set_result(res)

    def shutdown(self, wait=True, *, cancel_futures=False):
        self._shutdown = True

"""Outcome of one simulated run + small shared helpers."""
from __future__ import annotations

import hashlib


class Outcome:
    __slots__ = ("status", "oracle", "message", "details", "digest", "wdigest",
                 "nontrivial", "probes", "faults", "decoded", "policy", "abstract",
                 "sim_time", "klass", "info")

    def __init__(self):
        self.status = "ok"          # ok | violation | discard
        self.oracle = None          # oracle id for violations
        self.message = ""
        self.details = {}           # flat dict used for known-finding matching
        self.digest = ""            # event-sequence digest
        self.wdigest = ""           # workload digest
        self.nontrivial = False
        self.probes = {}
        self.faults = {}
        self.decoded = None         # readable form (graph/ops/faults/schedule)
        self.policy = ""
        self.abstract = ()          # abstract states seen (hashable items)
        self.sim_time = 0.0
        self.klass = "fault_free"   # run class (fault_free | faulted | ...)
        self.info = {}              # informational counters (never violations)

    def violate(self, oracle, message, **details):
        if self.status != "violation":
            self.status = "violation"
            self.oracle = oracle
            self.message = message[:2000]
            d = {"oracle": oracle}
            d.update(details)
            self.details = d
        return self

    def probe(self, name, n=1):
        self.probes[name] = self.probes.get(name, 0) + n


def dg(obj):
    return hashlib.blake2b(repr(obj).encode(), digest_size=8).hexdigest()


def exc_site(exc):
    """file:function of the innermost frame inside dask (or innermost frame)."""
    tb = exc.__traceback__
    site = None
    last = None
    while tb is not None:
        co = tb.tb_frame.f_code
        fn = co.co_filename
        last = f"{fn.rsplit('/', 1)[-1]}:{co.co_name}"
        if "/dask/" in fn:
            site = f"{fn.split('/dask/', 1)[-1]}:{co.co_name}"
        tb = tb.tb_next
    return site or last or "?"


def jsonable(x, depth=0):
    if depth > 12:
        return repr(x)
    if isinstance(x, (str, int, float, bool)) or x is None:
        return x
    if isinstance(x, (list, tuple)):
        return [jsonable(i, depth + 1) for i in x]
    if isinstance(x, (set, frozenset)):
        return sorted((jsonable(i, depth + 1) for i in x), key=repr)
    if isinstance(x, dict):
        return {str(k): jsonable(v, depth + 1) for k, v in x.items()}
    return repr(x)

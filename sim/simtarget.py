"""SimTarget: an array-like store target whose writes are read-modify-write over
g-aligned blocks along axis 0 (the behaviour of chunk-compressed stores such as
HDF5/zarr, which is the documented reason da.store takes a lock).  Between the
read, the modify and the write-back the writing thread can be pre-empted.  With
g == 1 every element write is atomic."""
from __future__ import annotations

import numpy as np

from sim.simthreads import yield_now


class SimTarget:
    def __init__(self, shape, dtype, g=1, fill=-1, advertise=False):
        self.data = np.full(shape, fill, dtype=dtype)
        self.shape = tuple(shape)
        if advertise and len(self.shape):
            # like h5py/zarr datasets: the storage-block shape (g rows x the full trailing extent)
            self.chunks = (max(g, 1),) + self.shape[1:]
        self.dtype = np.dtype(dtype)
        self.ndim = len(self.shape)
        self.g = g
        self.writers = []          # (lo, hi) of writes in flight
        self.overlaps = 0          # overlapping writes in flight observed
        self.concurrent = 0        # any two writes in flight at once
        self.nwrites = 0
        self.nreads = 0

    def _span(self, index):
        if not isinstance(index, tuple):
            index = (index,)
        if self.ndim == 0 or not index:
            return 0, 1
        first = index[0]
        n = self.shape[0]
        if isinstance(first, slice):
            lo, hi, step = first.indices(n)
            if step < 0:
                lo, hi = hi + 1, lo + 1
        elif isinstance(first, (int, np.integer)):
            lo = int(first) % max(n, 1)
            hi = lo + 1
        else:
            lo, hi = 0, n
        return lo, max(hi, lo)

    def __setitem__(self, index, value):
        self.nwrites += 1
        lo, hi = self._span(index)
        g = self.g
        blo, bhi = (lo // g) * g, min(self.shape[0] if self.ndim else 1, -(-hi // g) * g)
        mine = (blo, bhi)
        for (a, b) in self.writers:
            self.concurrent += 1
            if a < bhi and blo < b:
                self.overlaps += 1
        self.writers.append(mine)
        try:
            if g <= 1 or self.ndim == 0:
                yield_now("target.write")
                self.data[index] = value
            else:
                block = self.data[blo:bhi].copy()          # read
                yield_now("target.rmw.read")
                if not isinstance(index, tuple):
                    index = (index,)
                first = index[0]
                if isinstance(first, slice):
                    s0, s1, st = first.indices(self.shape[0])
                    rel = slice(s0 - blo, (s1 - blo) if s1 >= 0 else None, st)
                    if st < 0 and s1 < 0:
                        rel = slice(s0 - blo, None, st)
                else:
                    rel = int(first) % self.shape[0] - blo
                block[(rel,) + tuple(index[1:])] = value   # modify
                yield_now("target.rmw.modify")
                self.data[blo:bhi] = block                 # write back
        finally:
            self.writers.remove(mine)
        yield_now("target.after-write")

    def __getitem__(self, index):
        self.nreads += 1
        yield_now("target.read")
        return self.data[index].copy()

"""SimFS: an in-memory fsspec filesystem (protocol simfs://) that behaves like a
real disk for concurrent users: every open() returns an independent handle
(fsspec's own MemoryFileSystem hands the same BytesIO to every opener, which no
real file system does).  Every handle operation is a scheduling point for
engine E2, is counted, and can fail with an injected OSError.  Writes become
visible in the store when the handle is closed (or flushed)."""
from __future__ import annotations

import io

import fsspec
from fsspec.implementations.memory import MemoryFile, MemoryFileSystem

from sim.simthreads import yield_now

STATE = {
    "fault": None,      # {"op": "open"|"read"|"write", "nth": k} -> OSError at the k-th such op
    "counts": {},       # op -> n
    "open_handles": {},  # id -> (path, mode)
    "fired": 0,
    "log": None,        # optional list to which (op, path, ...) tuples are appended
    "max_open": 0,
}


def reset():
    STATE["fault"] = None
    STATE["counts"] = {}
    STATE["open_handles"] = {}
    STATE["fired"] = 0
    STATE["log"] = None
    STATE["max_open"] = 0
    SimFS.store.clear()
    SimFS.pseudo_dirs[:] = [""]


def _op(op, path, *extra):
    c = STATE["counts"]
    c[op] = c.get(op, 0) + 1
    if STATE["log"] is not None:
        STATE["log"].append((op, path) + extra)
    f = STATE["fault"]
    if f is not None and f["op"] == op and c[op] == f["nth"]:
        STATE["fired"] += 1
        raise OSError(5, f"simulated I/O error on {op} #{c[op]} of {path}")
    yield_now("fs." + op)


class SimFile(io.BytesIO):
    def __init__(self, fs, path, mode, data=b""):
        super().__init__(data)
        self.fs = fs
        self.path = path
        self.mode = mode
        self._sim_closed = False
        if "a" in mode:
            io.BytesIO.seek(self, 0, 2)
        STATE["open_handles"][id(self)] = (path, mode)
        STATE["max_open"] = max(STATE["max_open"], len(STATE["open_handles"]))

    @property
    def size(self):
        return self.getbuffer().nbytes

    # -- reads
    def read(self, n=-1):
        _op("read", self.path, self.tell(), n)
        return super().read(n)

    def read1(self, n=-1):
        _op("read", self.path, self.tell(), n)
        return super().read1(n)

    def readinto(self, b):
        _op("read", self.path, self.tell(), len(b))
        return super().readinto(b)

    def readline(self, n=-1):
        _op("read", self.path, self.tell(), "line")
        return super().readline(n)

    def seek(self, pos, whence=0):
        _op("seek", self.path, pos, whence)
        return super().seek(pos, whence)

    # -- writes
    def write(self, b):
        _op("write", self.path, len(b))
        return super().write(b)

    def _commit(self):
        if any(c in self.mode for c in "wax+"):
            m = MemoryFile(self.fs, self.path, self.getvalue())
            self.fs.store[self.path] = m

    def flush(self):
        if not self._sim_closed and not self.closed:
            self._commit()
        return super().flush()

    def close(self):
        if not self._sim_closed:
            self._sim_closed = True
            STATE["open_handles"].pop(id(self), None)
            c = STATE["counts"]
            c["close"] = c.get("close", 0) + 1
            self._commit()
            yield_now("fs.close")
        super().close()

    def __enter__(self):
        return self

    def __exit__(self, *a):
        self.close()
        return False

    def discard(self):
        pass

    def commit(self):
        self._commit()


class SimFS(MemoryFileSystem):
    protocol = "simfs"
    store = {}
    pseudo_dirs = [""]
    root_marker = "/"
    cachable = True

    # fsspec derives the instance token from the pid and the creating thread's ident and
    # dask puts it into task key names (read_bytes), which decide scheduling tie-breaks:
    # pin it, or one seed would not be one execution
    @property
    def _fs_token_(self):
        return "simfs-pinned-token"

    @_fs_token_.setter
    def _fs_token_(self, value):
        pass

    @classmethod
    def _strip_protocol(cls, path):
        if isinstance(path, list):
            return [cls._strip_protocol(p) for p in path]
        if path.startswith("simfs://"):
            path = path[len("simfs://"):]
        if "::" in path or "://" in path:
            return path.rstrip("/")
        path = path.lstrip("/").rstrip("/")
        return "/" + path if path else ""

    def _open(self, path, mode="rb", block_size=None, autocommit=True, cache_options=None,
              **kwargs):
        path = self._strip_protocol(path)
        _op("open", path, mode)
        if mode in ("rb", "r+b"):
            if path not in self.store:
                raise FileNotFoundError(path)
            return SimFile(self, path, mode, self.store[path].getvalue())
        if mode in ("ab", "a+b"):
            data = self.store[path].getvalue() if path in self.store else b""
            f = SimFile(self, path, mode, data)
            f._commit()
            return f
        if mode in ("wb", "w+b", "xb", "x+b"):
            if "x" in mode and path in self.store:
                raise FileExistsError(path)
            f = SimFile(self, path, mode)
            f._commit()
            return f
        raise ValueError(f"unsupported mode {mode!r}")

    def ukey(self, path):
        path = self._strip_protocol(path)
        import zlib

        return f"{path}-{zlib.crc32(self.store[path].getvalue())}"


def install():
    fsspec.register_implementation("simfs", SimFS, clobber=True)


def put(path, data):
    fs = fsspec.filesystem("simfs")
    p = fs._strip_protocol(path)
    fs.store[p] = MemoryFile(fs, p, data)
    if not data:
        fs.store[p] = MemoryFile(fs, p, None)
    return p


def get(path):
    fs = fsspec.filesystem("simfs")
    return fs.store[fs._strip_protocol(path)].getvalue()

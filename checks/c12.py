"""C12 (partial) — a token is a function of the value alone.

Decided here: tokenization is independent of (a) what other threads tokenize at
the same time (E2, pre-emption at lines of dask/tokenize.py and at
tokenize_lock), (b) what was tokenized before in the process / whether a
previous tokenization raised, (c) the interpreter's hash seed / a process
restart (plain data, fresh interpreters).  Not decided: that observably
different values get different tokens (collision search is input generation)."""
from __future__ import annotations

import copy
import json
import os
import pickle
import subprocess
import sys

from sim import tokvals
from sim.core import Outcome, dg
from sim.simthreads import SimRLock, SimThreads

META = {
    "level": "exploration",
    "budget": {"quick": {"seconds": 75, "runs": 250},
               "thorough": {"seconds": 900, "runs": 10**9}},
    "rule": ("one evaluation = a pool of 6-14 generated values (nested and recursive containers, sets, dataclasses, "
             "partials, functions, numpy/pandas data, objects with __dask_tokenize__ incl. nested tokenize calls "
             "and raising ones) tokenized by 2-4 simulated threads (originals, deep copies, pickle round trips, "
             "ensure_deterministic on/off) that are pre-empted at lines of dask/tokenize.py and at "
             "tokenize_lock; every token is compared with the token of the same value in the quiescent "
             "single-threaded interpreter; a slice re-tokenizes the plain data in a fresh interpreter with "
             "another hash seed; distinct = distinct (pool, interleaving digest); non-trivial = >=2 threads were "
             "inside tokenize-related code at overlapping times (a thread blocked on tokenize_lock)"),
    "abstract_measure": "distinct numbers of context switches per run (bucketed)",
    "gates": {"quick": {"lock_contended": 1500, "trace_preempt": 20000, "exploding_tokenize": 500,
                        "fresh_interpreter": 8, "nested_call_recursive_payload": 40,
                        "equal_sets_iterate_differently": 100},
              "thorough": {"lock_contended": 1500}},
    "anchors": ["dask/tokenize.py", "dask/hashing.py"],
    "real": ["dask.tokenize.tokenize / _tokenize / normalize_* / _SEEN / _ENSURE_DETERMINISTIC",
             "pickle / cloudpickle inside _normalize_pickle", "real threads (baton-passed), sys.settrace "
             "pre-emption at line granularity inside dask/tokenize.py"],
    "stubbed": ["tokenize_lock (threading.RLock) -> SimRLock"],
    "assumptions": ["values whose token legitimately depends on identity (plain object(), unpicklable objects) "
                    "are not in the pool", "collision-freeness is not addressed by this technique"],
}

FRESH_SRC = r"""
import sys, json
sys.path.insert(0, {repo!r}); sys.path.insert(0, {verif!r})
from dask.tokenize import tokenize
from sim import tokvals
specs = json.loads({specs!r})
print("RESULT " + json.dumps([tokenize(tokvals.build(s)) for s in specs]))
"""


def tier_cfg(tier):
    return {"maxpool": 14, "fresh_den": 30 if tier == "quick" else 15}


def setup(cfg):
    import numpy  # noqa: F401
    import pandas  # noqa: F401

    import dask.tokenize  # noqa: F401


def is_plain(spec):
    k = spec[0]
    if k in ("int", "str", "bytes", "float", "none", "ndarray", "series"):
        return True
    if k in ("list", "tuple"):
        return all(is_plain(s) for s in spec[1])
    if k == "dict":
        return all(is_plain(v) for _, v in spec[1])
    return False


def run_one(tape, cfg):
    import dask.tokenize as dt
    from dask.tokenize import TokenizationError, tokenize

    out = Outcome()
    with tape.span("pool"):
        npool = 6 + tape.draw(cfg["maxpool"] - 5, "npool")
        specs = []
        for _ in range(npool):
            with tape.span("value"):
                specs.append(tokvals.gen_spec(tape))
        nthreads = 2 + tape.draw(3, "nthreads")
        trace_den = (6, 12, 30)[tape.draw(3, "tden")]
        policy = tape.choice(SimThreads.POLICIES, "policy")
        programs = []
        for _ in range(nthreads):
            prog = []
            for _ in range(2 + tape.draw(6, "nops")):
                with tape.span("op"):
                    prog.append({
                        "i": tape.draw(npool, "i"),
                        "variant": tape.weighted([(4, "orig"), (2, "deepcopy"), (2, "pickle"),
                                                  (1, "explode"), (1, "ensure_det")], "variant"),
                    })
            programs.append(prog)
    wl = {"specs": specs, "threads": programs, "trace_den": trace_den, "policy": policy}
    out.decoded = wl
    out.wdigest = dg(wl)
    out.policy = policy
    del tokvals.NestedTokenizer.instances[:]
    tokvals.reset_local_classes()          # run-time classes are new objects in every run
    values = [tokvals.build(s) for s in specs]
    baseline = [tokenize(v) for v in values]
    if any(s[0] == "localcls" for s in specs) and any(s[0] == "localinst" for s in specs):
        out.probe("runtime_class_and_instance")
    # (a') a tokenize() call made from inside a __dask_tokenize__ is a tokenize() call like any other:
    # it returns the token a top-level call returns for an equal value, whatever the enclosing call
    # has on its stack
    for inst in list(tokvals.NestedTokenizer.instances):
        if inst.inner is None:
            continue
        out.probe("nested_call_compared")
        if inst.spec[0] in ("reclist", "recdict"):
            out.probe("nested_call_recursive_payload")
        top = tokenize(tokvals.build(inst.spec))
        if inst.inner != top:
            out.violate("token_depends_on_enclosing_call",
                        f"tokenize() of {inst.spec} called from a __dask_tokenize__ returned {inst.inner}, "
                        f"a top-level call returns {top}", kind=inst.spec[0])
            return out
    del tokvals.NestedTokenizer.instances[:]
    # (b) history independence: the same values again, after other tokenizations
    for v, b in zip(values, baseline):
        if tokenize(v) != b:
            out.violate("token_depends_on_history", f"value {v!r}: second tokenization differs")
            return out
    # equal values (deep copies, pickle round trips) in the quiescent interpreter: reported
    # under its own oracle so that it is not mistaken for a concurrency effect
    for s, v, b in zip(specs, values, baseline):
        try:
            v2 = pickle.loads(pickle.dumps(v))
        except Exception:
            v2 = v
        if tokenize(copy.deepcopy(v)) != b or tokenize(v2) != b:
            out.violate("token_differs_for_copy", f"value {s}: deep copy / pickle round trip has another "
                                                  f"token than the original", kind=s[0])
            return out
    # equal values whose sets / dicts were filled in the opposite order (another iteration order)
    for s, b in zip(specs, baseline):
        v3 = tokvals.build(s, rev=True)
        if s[0] in ("fsset", "tupset"):
            out.probe("set_of_containers")
            if list(v3) != list(tokvals.build(s)):
                out.probe("equal_sets_iterate_differently")
        if tokenize(v3) != b:
            out.violate("token_differs_for_equal_value",
                        f"value {s}: an equal value built in the opposite insertion order has another token",
                        kind=s[0])
            return out
    del tokvals.NestedTokenizer.instances[:]
    problems = []
    saved_lock = dt.tokenize_lock
    dt.tokenize_lock = SimRLock()
    sched = SimThreads(tape, policy=policy, step_cap=400000, trace_files=("dask/tokenize.py",),
                       trace_den=trace_den)
    nexpl = [0]

    def body(tid, prog):
        def run():
            for op in prog:
                if problems:
                    return
                v = values[op["i"]]
                var = op["variant"]
                try:
                    if var == "deepcopy":
                        tok = tokenize(copy.deepcopy(v))
                    elif var == "pickle":
                        try:
                            v2 = pickle.loads(pickle.dumps(v))
                        except Exception:
                            v2 = v
                        tok = tokenize(v2)
                    elif var == "explode":
                        nexpl[0] += 1
                        flag = (None, True, False)[op["i"] % 3]
                        try:
                            tokenize(tokvals.Exploding(v), ensure_deterministic=flag)
                            problems.append(("exception_swallowed", f"thread {tid}: raising "
                                                                    f"__dask_tokenize__ did not propagate"))
                        except ValueError:
                            pass
                        # the failed call must leave no trace: neither in the recursion table nor in
                        # the ensure_deterministic setting seen by later calls of this thread
                        try:
                            dt._ENSURE_DETERMINISTIC.get()
                            problems.append(("state_leaked_after_exception",
                                             f"thread {tid}: ensure_deterministic={flag} of a tokenize call "
                                             f"that raised is still set for later calls"))
                            return
                        except LookupError:
                            pass
                        try:
                            tokenize(object())        # legal without ensure_deterministic
                        except TokenizationError:
                            problems.append(("state_leaked_after_exception",
                                             f"thread {tid}: after a failed tokenize(ensure_deterministic="
                                             f"{flag}) a plain tokenize(object()) raises TokenizationError"))
                            return
                        tok = tokenize(v)
                    elif var == "ensure_det":
                        tok = tokenize(v, ensure_deterministic=True)
                    else:
                        tok = tokenize(v)
                except TokenizationError as e:
                    problems.append(("tokenize_raised", f"thread {tid}: TokenizationError for "
                                                        f"{specs[op['i']]}: {e}"))
                    return
                if tok != baseline[op["i"]]:
                    problems.append(("token_depends_on_concurrency",
                                     f"thread {tid}: value {specs[op['i']]} ({var}) got token {tok}, "
                                     f"quiescent single-threaded token {baseline[op['i']]}"))
                    return
        return run

    try:
        with sched:
            sts = [sched.spawn(body(t, programs[t]), name=f"tok{t}") for t in range(nthreads)]
            res = sched.run()
        for st in sts:
            if st.exc is not None and not problems:
                problems.append(("tokenize_raised", f"thread {st.name}: {type(st.exc).__name__}: {st.exc}"))
        if res != "ok" and not problems:
            problems.append(("no_termination", f"{res}: {sched.deadlock}"))
    finally:
        dt.tokenize_lock = saved_lock
    if not problems:
        if dt._SEEN:
            problems.append(("seen_not_restored", f"_SEEN holds {len(dt._SEEN)} entries after all "
                                                  f"tokenize calls returned"))
        try:
            dt._ENSURE_DETERMINISTIC.get()
            problems.append(("contextvar_not_reset", "_ENSURE_DETERMINISTIC still set"))
        except LookupError:
            pass
        for v, b in zip(values, baseline):
            if tokenize(v) != b:
                problems.append(("token_depends_on_history", f"value {v!r} after the concurrent phase"))
                break
    if not problems and tape.draw(cfg["fresh_den"], "fresh") == 0:
        from sim import pin

        plain = [s for s in specs if is_plain(s)]
        if plain:
            src = FRESH_SRC.format(repo=pin.REPO, verif=pin.VERIF_DIR, specs=json.dumps(plain))
            p = subprocess.run([sys.executable, "-c", src], capture_output=True, text=True,
                               env=dict(os.environ, PYTHONHASHSEED="90210"), timeout=180)
            line = [ln for ln in p.stdout.splitlines() if ln.startswith("RESULT ")]
            if not line:
                raise pin.HarnessError("fresh interpreter failed: " + p.stderr[-800:])
            out.probe("fresh_interpreter")
            fresh = json.loads(line[0][7:])
            here = [tokenize(tokvals.build(s)) for s in plain]
            for s, a, b in zip(plain, here, fresh):
                if a != b:
                    problems.append(("token_depends_on_interpreter",
                                     f"{s}: token {a} here, {b} in a fresh interpreter with another "
                                     f"hash seed"))
                    break
    out.digest = sched.digest()
    out.probes.update(sched.probes)
    out.probe("exploding_tokenize", nexpl[0])
    out.abstract = (min(sched.switches // 20, 50),)
    out.sim_time = float(sched.steps)
    out.nontrivial = sched.probes.get("lock_contended", 0) > 0
    if problems:
        out.violate(problems[0][0], problems[0][1])
    return out

"""C49 — bag sampling returns valid samples reproducibly.

The global `random` module is the randomness seam (seeded per run); tasks
consume it in schedule order, so every simulated completion schedule is another
draw sequence.  sample/choices must be valid under all of them; random_sample
with a fixed random_state must give the identical subsequence under every
scheduler, schedule, recomputation, and in a fresh interpreter."""
from __future__ import annotations

import json
import os
import subprocess
import sys
from collections import Counter

from sim import schedrun as sr
from sim.core import Outcome, dg, exc_site

META = {
    "level": "exploration",
    "budget": {"quick": {"seconds": 60, "runs": 1500},
               "thorough": {"seconds": 900, "runs": 10**9}},
    "rule": ("one evaluation = one population (duplicates, 1-6 partitions incl. empty ones) x op in "
             "{sample, choices, random_sample} x k from 0 past the population size x split_every x entry "
             "point x simulated completion schedule (the order in which tasks draw from the global PRNG); "
             "random_sample is recomputed under 2 further schedulers/schedules and, for a slice of runs, in "
             "a fresh interpreter with another hash seed; distinct = distinct (workload, event digest); "
             "non-trivial = >=2 non-empty partitions and >=2 jobs open at once"),
    "abstract_measure": "distinct (op, k relative to n, has empty partition) classes",
    "gates": {"quick": {"empty_partition": 3000, "k_zero": 300, "k_gt_n": 300, "multi_open": 2000,
                        "random_sample_recomputed": 2000, "fresh_interpreter": 8},
              "thorough": {"empty_partition": 3000}},
    "anchors": ["dask/bag/random.py", "dask/bag/core.py"],
    "real": ["dask.bag.random.sample/choices (+ map/reduce helpers)", "Bag.random_sample / "
             "random_state_data_python", "dask.bag reduction graphs", "get_async / threaded.get / "
             "multiprocessing.get (cloudpickle boundary)"],
    "stubbed": ["OS pools -> SimExecutor"],
    "assumptions": ["the PRNG is the real Mersenne twister seeded from the run seed (no adversarial 0.0 draws)",
                    "only membership/size/reproducibility are asserted, never a distribution"],
}


GC_EACH_RUN = True  # see sim/worker.run_tape


def tier_cfg(tier):
    return {"maxn": 12 if tier == "quick" else 40, "fresh_den": 150 if tier == "quick" else 60}


def setup(cfg):
    import dask.bag  # noqa: F401


def make_bag(parts):
    import dask.bag as db

    dsk = {("verif-pop", i): list(p) for i, p in enumerate(parts)}
    return db.Bag(dsk, "verif-pop", len(parts))


FRESH_SRC = r"""
import sys, json
sys.path.insert(0, {repo!r})
import dask, dask.bag as db
parts = json.loads({parts!r})
dsk = {{("verif-pop", i): list(p) for i, p in enumerate(parts)}}
b = db.Bag(dsk, "verif-pop", len(parts))
print("RESULT " + json.dumps(b.random_sample({prob!r}, random_state={seed!r}).compute(scheduler="sync")))
"""


def run_one(tape, cfg):
    import dask
    import dask.bag.random as dbr

    out = Outcome()
    with tape.span("workload"):
        nparts = 1 + tape.draw(6, "nparts")
        parts = []
        for _ in range(nparts):
            m = 0 if tape.chance(1, 4, "empty") else 1 + tape.draw(max(1, cfg["maxn"] // 2), "plen")
            parts.append([tape.draw(6, "elem") for _ in range(m)])
        pop = [x for p in parts for x in p]
        n = len(pop)
        op = ("sample", "choices", "random_sample")[tape.draw(3, "op")]
        kk = tape.draw(4, "kkind")
        k = 0 if kk == 0 else (n + 1 + tape.draw(3, "over") if kk == 1 else tape.draw(n + 1, "k"))
        split_every = (None, 2, 3)[tape.draw(3, "split")]
        prob = (0.0, 0.3, 0.5, 0.9, 1.0)[tape.draw(5, "prob")]
        rs = tape.draw(1000, "rs")
    has_empty = any(not p for p in parts)
    if has_empty:
        out.probe("empty_partition")
    wl = {"parts": parts, "op": op, "k": k, "split_every": split_every, "prob": prob, "random_state": rs}
    out.decoded = wl
    out.wdigest = dg(wl)
    out.abstract = ((op, "k0" if k == 0 else ("k>n" if k > n else "k<=n"), has_empty),)
    bag = make_bag(parts)
    run = sr.SimRun(tape)
    out.decoded["run"] = run.describe()
    out.policy = run.policy
    digests = []
    try:
        if op in ("sample", "choices"):
            if k == 0:
                out.probe("k_zero")
            if k > n:
                out.probe("k_gt_n")
            if op == "choices" and n == 0:
                out.status = "discard"   # choosing from an empty population is undefined
                return out
            fn = dbr.sample if op == "sample" else dbr.choices
            kw = {} if split_every is None else {"split_every": split_every}
            try:
                with run:
                    res = fn(bag, k, **kw).compute(scheduler=run.get)
                exc = None
            except Exception as e:  # noqa: BLE001
                res, exc = None, e
            digests.append(run.sim.digest())
            if exc is not None:
                out.violate("sampling_raised",
                            f"{op}(b, k={k}) with n={n}, partitions {parts}: {type(exc).__name__} at "
                            f"{exc_site(exc)}: {exc}", exc_type=type(exc).__name__, op=op,
                            k_class="k0" if k == 0 else ("k>n" if k > n else "k<=n"),
                            msg_head=str(exc).split("\n")[0][:80], empty_partition=has_empty)
            else:
                res = list(res)
                if op == "sample":
                    want_len = min(k, n)
                    c = Counter(res)
                    cp = Counter(pop)
                    if len(res) != want_len:
                        out.violate("sample_size", f"sample(b, {k}) with n={n} returned {len(res)} elements: "
                                                   f"{res}", op=op)
                    elif any(c[x] > cp[x] for x in c):
                        out.violate("sample_not_submultiset", f"sample(b, {k}) -> {res} is not a "
                                                              f"sub-multiset of {pop}", op=op)
                else:
                    if len(res) != k:
                        out.violate("choices_size", f"choices(b, {k}) returned {len(res)} elements", op=op)
                    elif any(x not in pop for x in res):
                        out.violate("choices_not_member", f"choices(b, {k}) -> {res}, population {pop}",
                                    op=op)
        else:
            results = []
            sampled = bag.random_sample(prob, random_state=rs)
            for i in range(4):
                r = run if i == 0 else sr.SimRun(tape)
                with r:
                    if i <= 1:
                        coll = sampled                       # recomputation of the very same collection
                    elif i == 2:
                        coll = bag.random_sample(prob, random_state=rs)          # built again
                    else:
                        coll = make_bag(parts).random_sample(prob, random_state=rs)  # equal, separate bag
                    results.append(list(coll.compute(scheduler=r.get)))
                digests.append(r.sim.digest())
                if i:
                    out.probe("random_sample_recomputed")
            first = results[0]
            for r in results[1:]:
                if r != first:
                    out.violate("random_sample_not_reproducible",
                                f"random_sample({prob}, random_state={rs}) gave {first} and {r}", op=op)
            if out.status != "violation" and pop and tape.chance(1, 2, "together"):
                # the same bag consumed by a second sampling operation in the same computation
                import dask
                from dask.bag.random import sample as bag_sample

                kk = 1 + tape.draw(len(pop), "kk")
                other = bag_sample(bag, kk)
                r5 = sr.SimRun(tape)
                with r5:
                    tog, smp = dask.compute(sampled, other, scheduler=r5.get)
                digests.append(r5.sim.digest())
                out.probe("two_samplers_one_compute")
                if list(tog) != first:
                    out.violate("random_sample_not_reproducible",
                                f"random_sample({prob}, random_state={rs}) computed together with sample(b, {kk}) "
                                f"of the same bag gave {list(tog)}, alone {first}", op=op)
                elif len(smp) != kk or Counter(smp) - Counter(pop):
                    out.violate("sample_not_submultiset", f"sample(b, {kk}) -> {list(smp)}, population {pop}",
                                op=op)
            if out.status != "violation" and pop and tape.chance(1, 2, "chained"):
                # a second random_sample on top of the first: with graph optimisation the two lazy
                # stages run fused in one task, without it they run apart -- same subsequence either way
                chained = sampled.random_sample(0.5, random_state=rs + 1)
                r6, r7 = sr.SimRun(tape), sr.SimRun(tape)
                with r6:
                    fused = list(chained.compute(scheduler=r6.get))
                with r7:
                    apart = list(chained.compute(scheduler=r7.get, optimize_graph=False))
                digests.extend([r6.sim.digest(), r7.sim.digest()])
                out.probe("chained_random_sample")
                if fused != apart:
                    out.violate("random_sample_not_reproducible",
                                f"random_sample chained on random_sample: {fused} with graph optimisation, "
                                f"{apart} without", op=op)
            if out.status != "violation":
                # a subsequence of the population, partition by partition
                it = iter(pop)
                if not all(any(x == y for y in it) for x in first):
                    out.violate("random_sample_not_subsequence", f"{first} is not a subsequence of {pop}",
                                op=op)
                elif prob == 1.0 and first != pop:
                    out.violate("random_sample_prob1", f"prob=1 returned {first}, population {pop}", op=op)
                elif prob == 0.0 and first:
                    out.violate("random_sample_prob0", f"prob=0 returned {first}", op=op)
            if out.status != "violation" and tape.draw(cfg["fresh_den"], "fresh") == 0:
                from sim import pin

                src = FRESH_SRC.format(repo=pin.REPO, parts=json.dumps(parts), prob=prob, seed=rs)
                env = dict(os.environ, PYTHONHASHSEED="31337")
                p = subprocess.run([sys.executable, "-c", src], capture_output=True, text=True, env=env,
                                   timeout=120)
                line = [ln for ln in p.stdout.splitlines() if ln.startswith("RESULT ")]
                if not line:
                    raise pin.HarnessError("fresh interpreter failed: " + p.stderr[-500:])
                out.probe("fresh_interpreter")
                fresh = json.loads(line[0][7:])
                if fresh != first:
                    out.violate("random_sample_not_reproducible",
                                f"fresh interpreter gave {fresh}, this process {first}", op=op)
    finally:
        pass
    sim = run.sim
    if sim.max_open >= 2:
        out.probe("multi_open")
    out.digest = dg(digests)
    out.sim_time = float(sim.events)
    out.nontrivial = sum(1 for p in parts if p) >= 2 and sim.max_open >= 2
    return out

"""C53 — serializable locks keep their identity across pickling.

E2: 2-4 simulated threads contend on pickled copies of up to 3 lock families;
dask.utils.Lock is the simulated lock, so every acquire/release is a
scheduling point.  A lock model (one holder per family) is the oracle."""
from __future__ import annotations

import copy
import gc
import pickle

from sim.core import Outcome, dg
from sim.simthreads import SimLock, SimThreads, cur, yield_now

META = {
    "level": "exploration",
    "budget": {"quick": {"seconds": 60, "runs": 1500},
               "thorough": {"seconds": 900, "runs": 10**9}},
    "rule": ("one evaluation = up to 3 lock families (generated or explicit tokens) x 1-4 pickled copies "
             "(pickle / cloudpickle / deepcopy, 1-3 round trips) x 2-4 simulated threads each running a "
             "tape-generated program of critical sections (blocking / non-blocking / timed / zero-timeout acquire, release "
             "through any copy, pickling while held, dropping copies + gc) under a simulated interleaving; "
             "distinct = distinct (program digest, interleaving digest); non-trivial = some acquire found "
             "the family held by another thread"),
    "abstract_measure": "distinct (holder per family) model states",
    "gates": {"quick": {"lock_contended": 1000, "nonblocking_refused": 500, "cross_family_ok": 500,
                        "copied_while_held": 300, "zero_timeout_on_held_lock": 300},
              "thorough": {"lock_contended": 1000}},
    "anchors": ["dask/utils.py"],
    "real": ["dask.utils.SerializableLock (registry, __getstate__/__setstate__, acquire/release/locked)",
             "pickle / cloudpickle / copy.deepcopy round trips", "real threads (baton-passed)"],
    "stubbed": ["threading.Lock inside SerializableLock -> SimLock (wraps a real threading.Lock; adds "
                "scheduling points and tape-decided timeouts)"],
    "assumptions": ["creation races are excluded (the class documents creation as not thread-safe): "
                    "families are created before the threads start; copies are created while the creating "
                    "thread holds the baton", "explicit equal tokens mean the same lock by design"],
}


def tier_cfg(tier):
    return {"max_ops": 6 if tier == "quick" else 14}


def roundtrip(lock, how, n):
    import cloudpickle

    for _ in range(n):
        if how == 0:
            lock = pickle.loads(pickle.dumps(lock))
        elif how == 1:
            lock = cloudpickle.loads(cloudpickle.dumps(lock))
        else:
            lock = copy.deepcopy(lock)
    return lock


def run_one(tape, cfg):
    import dask.utils as du

    out = Outcome()
    saved_lock = du.Lock
    du.Lock = SimLock
    viol = []
    try:
        with tape.span("families"):
            nfam = 1 + tape.draw(3, "nfam")
            nthreads = 2 + tape.draw(3, "nthreads")
            fams = []
            spec_f = []
            # explicit tokens of several hashable kinds; different families get different tokens,
            # but some of them look alike (1 vs "1", ("x", 1) vs "('x', 1)")
            pool_tokens = [f"verif-tok-{tape.draw(2, 'tk')}", 1, "1", ("x", 1), "('x', 1)", 2.0, "2.0", b"k",
                           "b'k'"]
            used_tokens = []
            reseed = tape.chance(1, 3, "reseed_global_random")
            if reseed:
                out.probe("global_random_reseeded_between_creations")
            for f in range(nfam):
                explicit = tape.chance(1, 2, "explicit")
                tok = None
                if explicit:
                    cand = [t for t in pool_tokens if not any(t == u and type(t) is type(u)
                                                              for u in used_tokens)]
                    # prefer a token whose str() collides with one already used
                    alike = [t for t in cand if any(str(t) == str(u) for u in used_tokens)]
                    pick = alike if alike and tape.chance(2, 3, "alike") else cand
                    tok = pick[tape.draw(len(pick), "tok")]
                    used_tokens.append(tok)
                if reseed:
                    # a program that re-seeds the global random module (reproducible pipelines do):
                    # separately created locks must still be different locks
                    import random as _random

                    _random.seed(4242)
                lk = du.SerializableLock(tok) if explicit else du.SerializableLock()
                pool = [lk]
                ncopies = tape.draw(4, "ncopies")
                hows = []
                for _ in range(ncopies):
                    how, n = tape.draw(3, "how"), 1 + tape.draw(3, "trips")
                    src = pool[tape.draw(len(pool), "src")]
                    pool.append(roundtrip(src, how, n))
                    hows.append((how, n))
                if explicit and tape.chance(1, 2, "sep"):
                    pool.append(du.SerializableLock(tok))  # separately created, same token
                    hows.append(("same-token", 0))
                fams.append(pool)
                spec_f.append({"explicit": bool(explicit), "token": repr(tok), "copies": hows})
        programs = []
        for t in range(nthreads):
            prog = []
            for _ in range(1 + tape.draw(cfg["max_ops"], "nops")):
                with tape.span("op"):
                    op = {
                        "kind": tape.weighted([(6, "cs"), (2, "locked"), (1, "drop")], "kind"),
                        "fam": tape.draw(nfam, "fam"),
                        "sel": tape.draw(8, "sel"),
                        "mode": tape.weighted([(3, "block"), (2, "nonblock"), (1, "timeout"),
                                               (1, "with"), (1, "timeout0")], "mode"),
                        "inner": [tape.weighted([(2, "yield"), (2, "locked"), (2, "cross"), (1, "copy")],
                                                "inner") for _ in range(tape.draw(4, "ninner"))],
                        "rsel": tape.draw(8, "rsel"),
                        "cross": tape.draw(nfam, "cross"),
                    }
                    prog.append(op)
            programs.append(prog)
        policy = tape.choice(SimThreads.POLICIES, "policy")
        sched = SimThreads(tape, policy=policy, step_cap=20000)
        holder = [None] * nfam
        inside = [0] * nfam
        abstract = set()
        stats = {"refused": 0, "cross_ok": 0, "copied_held": 0, "contended_model": 0}

        def bad(oracle, msg):
            viol.append((oracle, msg))

        def pick(f, sel):
            pool = fams[f]
            return pool[sel % len(pool)]

        def body(tid, prog):
            def run():
                for op in prog:
                    if viol:
                        return
                    f = op["fam"]
                    if op["kind"] == "locked":
                        c = pick(f, op["sel"])
                        got = c.locked()
                        if got != (holder[f] is not None):
                            bad("locked_disagrees", f"thread {tid}: copy of family {f} locked()={got}, "
                                                    f"model holder={holder[f]}")
                        yield_now("after-locked")
                        continue
                    if op["kind"] == "drop":
                        # drop a copy that nobody is about to use: only when the family is free and
                        # more than one copy remains
                        if holder[f] is None and len(fams[f]) > 1:
                            fams[f].pop(op["sel"] % len(fams[f]))
                            gc.collect()
                        yield_now("after-drop")
                        continue
                    c = pick(f, op["sel"])
                    mode = op["mode"]
                    if holder[f] is not None and holder[f] != tid:
                        stats["contended_model"] += 1
                    if mode == "block":
                        ok = c.acquire()
                        if ok is not True:
                            bad("blocking_acquire_failed", f"thread {tid}: acquire() returned {ok!r}")
                            return
                    elif mode == "with":
                        c.__enter__()
                        ok = True
                    elif mode == "nonblock":
                        ok = c.acquire(False)
                    elif mode == "timeout0":
                        # a zero timeout is a try-lock: it answers at once, whoever holds the lock
                        before = getattr(cur(), "nblocks", 0)
                        how = op["sel"] % 3
                        ok = (c.acquire(timeout=0) if how == 0 else
                              c.acquire(True, 0) if how == 1 else c.acquire(True, 0.0))
                        if holder[f] is not None:
                            stats["timeout0_held"] = stats.get("timeout0_held", 0) + 1
                        if getattr(cur(), "nblocks", 0) != before:
                            bad("zero_timeout_blocked", f"thread {tid}: acquire with a zero timeout on family "
                                                        f"{f} waited for the holder instead of returning")
                            return
                    else:
                        ok = c.acquire(timeout=0.01) if op["sel"] % 2 else c.acquire(True, 0.01)
                    if not ok:
                        if holder[f] is None:
                            bad("refused_while_free", f"thread {tid}: {mode} acquire on free family {f} "
                                                      f"returned False")
                            return
                        stats["refused"] += 1
                        continue
                    if holder[f] is not None or inside[f] != 0:
                        bad("mutual_exclusion", f"thread {tid} acquired a copy of family {f} while thread "
                                                f"{holder[f]} holds another copy")
                        return
                    holder[f] = tid
                    inside[f] += 1
                    abstract.add(tuple(holder))
                    for inner in op["inner"]:
                        if inner == "yield":
                            yield_now("in-cs")
                        elif inner == "locked":
                            o = pick(f, op["rsel"] + 1)
                            if not o.locked():
                                bad("locked_disagrees", f"thread {tid}: holds family {f} but another copy "
                                                        f"reports locked()=False")
                                return
                        elif inner == "cross":
                            g = op["cross"]
                            if g == f:
                                continue
                            o = pick(g, op["rsel"])
                            free = holder[g] is None
                            got = o.acquire(False)
                            if got:
                                if holder[g] is not None:
                                    bad("mutual_exclusion", f"thread {tid} acquired family {g} held by "
                                                            f"{holder[g]}")
                                    return
                                stats["cross_ok"] += 1
                                o.release()
                            elif holder[g] is None:
                                bad("separate_locks_exclude",
                                    f"thread {tid} holds family {f}; non-blocking acquire of free family "
                                    f"{g} was refused")
                                return
                        elif inner == "copy":
                            fams[f].append(roundtrip(c, op["sel"] % 3, 1))
                            stats["copied_held"] += 1
                        if inside[f] != 1 or holder[f] != tid:
                            bad("mutual_exclusion", f"family {f}: inside={inside[f]} holder={holder[f]} "
                                                    f"while thread {tid} is in its critical section")
                            return
                    inside[f] -= 1
                    holder[f] = None
                    r = pick(f, op["rsel"])
                    if mode == "with":
                        c.__exit__(None, None, None)
                    else:
                        r.release()
            return run

        with sched:
            sts = [sched.spawn(body(t, programs[t]), name=f"c{t}") for t in range(nthreads)]
            res = sched.run()
        for st in sts:
            if st.exc is not None and not viol:
                viol.append(("thread_raised", f"thread {st.name}: {type(st.exc).__name__}: {st.exc}"))
        if res == "deadlock" and not viol:
            viol.append(("deadlock", f"no runnable thread: {sched.deadlock}; model holders {holder}"))
        if res == "hang" and not viol:
            viol.append(("hang", "step cap exceeded"))
        out.digest = sched.digest()
        out.probes.update(sched.probes)
        out.probe("nonblocking_refused", stats["refused"])
        out.probe("cross_family_ok", stats["cross_ok"])
        out.probe("copied_while_held", stats["copied_held"])
        out.probe("zero_timeout_on_held_lock", stats.get("timeout0_held", 0))
        out.nontrivial = sched.probes.get("lock_contended", 0) > 0 or stats["refused"] > 0
        out.sim_time = float(sched.steps)
        out.abstract = tuple(abstract)
        out.policy = policy
        out.decoded = {"families": spec_f, "threads": programs, "policy": policy}
        out.wdigest = dg((spec_f, programs))
        if viol:
            out.violate(viol[0][0], viol[0][1])
    finally:
        du.Lock = saved_lock
    return out

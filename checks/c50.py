"""C50 — block-wise text reading reproduces the file exactly.

Files live on SimFS (independent handles, every open/seek/read/close is a
scheduling point and a fault point).  Block tasks run on simulated worker
threads (E2), optionally with two client threads computing the same delayed
blocks at once (shared lazy OpenFile objects), or through the simulated process
boundary (E1 + real cloudpickle), or with an injected I/O error."""
from __future__ import annotations

from functools import partial

from sim import simfs
from sim.core import Outcome, dg, exc_site
from sim.simexec import Sim
from sim.simthreads import SimThreadPool, SimThreads

META = {
    "level": "exploration",
    "budget": {"quick": {"seconds": 75, "runs": 700},
               "thorough": {"seconds": 900, "runs": 10**9}},
    "rule": ("one evaluation = 1-3 generated files (empty, no delimiter, trailing delimiter, runs, multi-byte, "
             "self-overlapping and UTF-8 delimiters) x blocksize 1..len+2 or None x files_per_partition x "
             "include_path, read through read_bytes and read_text; run classes: E2 worker threads "
             "(pre-empted at every SimFS open/seek/read/close), two concurrent clients on the same delayed "
             "blocks, simulated process boundary (cloudpickle), injected OSError at the k-th open/read; "
             "distinct = distinct (workload, event digest); non-trivial = >=2 blocks and >=2 handles open at "
             "once or a fault fired"),
    "abstract_measure": "distinct (handles open at once) values",
    "gates": {"quick": {"handles_overlap": 1500, "two_clients": 800, "pickle_boundary": 500,
                        "io_error": 300, "self_overlapping_delim": 400, "two_blocksizes_one_compute": 300,
                        "universal_newlines": 500},
              "thorough": {"handles_overlap": 1500}},
    "anchors": ["dask/bytes/core.py", "dask/bag/text.py"],
    "real": ["dask.bytes.core.read_bytes / read_block_from_file", "dask.bag.text.read_text / file_to_blocks / "
             "decode", "fsspec OpenFile, open_files, read_block, seek_delimiter, TextIOWrapper",
             "dask.delayed / dask.bag graph construction", "dask.threaded.get, dask.multiprocessing.get "
             "(cloudpickle)"],
    "stubbed": ["file system -> SimFS (in-memory, independent handles)", "OS pools -> SimThreadPool / SimExecutor"],
    "assumptions": ["buffered reads return the requested number of bytes unless EOF (fsspec.read_block relies "
                    "on it), so short reads are not injected", "text is valid UTF-8 and delimiters are valid "
                    "UTF-8 strings"],
}

DELIMS = ["\n", "|", "||", "aa", "ab", "\r\n", "é", "aba"]
ALPHA = ["a", "b", "x", "é", "漢", " "]
# default linedelimiter (None): universal newlines -- "\n", "\r\n" and a bare "\r" end a line and read as
# "\n"; the other characters str.splitlines() breaks at are ordinary characters for a text file
UNIVERSAL_ALPHA = ALPHA + ["\r", "\r\n", "\x0b", "\x0c", "\x1c", "\x1d", "\x1e", "\x85", "\u2028", "\u2029"]
LATIN_ALPHA = ["a", "b", "x", "\u00e9", " ", "\u00a7", "\u00ff"]          # encodable in latin-1


GC_EACH_RUN = True  # see sim/worker.run_tape


def tier_cfg(tier):
    return {"maxlen": 14 if tier == "quick" else 40}


def setup(cfg):
    import dask.bag  # noqa: F401

    simfs.install()


def gen_text(tape, delim, maxlen, alpha=ALPHA):
    kind = tape.draw(8, "tkind")
    if kind == 0:
        return ""
    n = 1 + tape.draw(maxlen, "tlen")
    parts = []
    for _ in range(n):
        r = tape.draw(10, "ch")
        if r <= 3:
            parts.append(delim)
        elif r == 4 and len(delim) > 1:
            parts.append(delim[0])          # a partial delimiter
        else:
            parts.append(alpha[tape.draw(len(alpha), "a")])
    if kind == 1:
        parts = [p for p in parts if p != delim]    # no delimiter at all
    if kind == 2:
        parts.append(delim)                          # trailing delimiter
    if kind == 3:
        parts = [delim, delim] + parts               # leading run
    return "".join(parts)


def ref_lines(text, delim, universal=False):
    if universal:
        text = text.replace("\r\n", "\n").replace("\r", "\n")
    if not text:
        return []
    parts = text.split(delim)
    return [p + delim for p in parts[:-1]] + ([parts[-1]] if parts[-1] else [])


def run_one(tape, cfg):
    import dask
    import dask.bag as db
    import dask.multiprocessing
    import dask.threaded
    from dask.bytes import read_bytes

    out = Outcome()
    simfs.reset()
    with tape.span("workload"):
        delim = DELIMS[tape.draw(len(DELIMS), "delim")]
        universal = tape.chance(1, 6, "universal")
        if universal:
            delim = "\n"
        nfiles = 1 + tape.draw(3, "nfiles")
        # files in a single-byte encoding: a non-ASCII delimiter then has other bytes than in UTF-8
        latin1 = (not universal) and tape.chance(1, 6, "latin1")
        texts = [gen_text(tape, delim, cfg["maxlen"],
                          UNIVERSAL_ALPHA if universal else (LATIN_ALPHA if latin1 else ALPHA))
                 for _ in range(nfiles)]
        # a long file whose delimiter occurrence straddles the 8192-character buffer size of text I/O
        long_file = (not universal) and tape.chance(1, 10, "long_file")
        if long_file:
            texts[0] = "x" * (8192 - len(delim) + 1 + tape.draw(max(1, len(delim) - 1), "straddle")
                              - tape.draw(2, "shift")) + delim + texts[0]
        datas = [t.encode("latin-1" if latin1 else "utf-8") for t in texts]
        maxb =max(len(d) for d in datas) + 2
        blocksize = None if (tape.draw(5, "bsnone") == 0 or long_file) else 1 + tape.draw(maxb, "bs")
        fpp = None
        if blocksize is None and tape.chance(1, 2, "fpp"):
            fpp = 1 + tape.draw(nfiles, "fppn")
        include_path = tape.chance(1, 4, "incpath")
        # the same files read a second time with another blocksize, both reads computed in one call
        blocksize2 = None
        if blocksize is not None and tape.chance(1, 3, "two_reads"):
            blocksize2 = 1 + tape.draw(maxb, "bs2")
        api = ("read_bytes", "read_text")[tape.draw(2, "api")]
        if universal or latin1:
            api = "read_text"
        klass = tape.weighted([(4, "threads"), (3, "two_clients"), (2, "pickle"), (2, "io_error")], "klass")
        nworkers = 2 + tape.draw(3, "nw")
        policy = tape.choice(SimThreads.POLICIES, "policy")
        prior_not_zero = blocksize is not None and tape.chance(1, 4, "prior_not_zero")
    if prior_not_zero:
        out.probe("prior_read_with_not_zero")
    if delim in ("aa", "aba"):
        out.probe("self_overlapping_delim")
    paths = [f"simfs://d/f{i}.txt" for i in range(nfiles)]
    for p, d in zip(paths, datas):
        simfs.put(p, d)
    if blocksize2 is not None and blocksize2 != blocksize:
        out.probe("two_blocksizes_one_compute")
    if universal:
        out.probe("universal_newlines")
    if latin1:
        out.probe("latin1_encoding")
    if long_file:
        out.probe("long_file_buffer_boundary")
    wl = {"delim": None if universal else delim, "texts": texts, "blocksize": blocksize, "blocksize2": blocksize2,
          "files_per_partition": fpp,
          "include_path": include_path, "api": api, "class": klass, "nworkers": nworkers, "policy": policy}
    out.decoded = wl
    out.wdigest = dg(wl)
    out.policy = policy
    out.klass = klass
    fslog = []
    problems = []
    results = []
    fault_fired = 0

    def build1(bs):
        if api == "read_bytes":
            r = read_bytes(paths, delimiter=delim.encode(), blocksize=bs, sample=False,
                           include_path=include_path)
            return r
        kw = {"linedelimiter": delim, "include_path": include_path}
        if universal:
            del kw["linedelimiter"]
        if latin1:
            kw["encoding"] = "latin-1"
        if bs is not None:
            kw["blocksize"] = bs
        if fpp is not None:
            kw["files_per_partition"] = fpp
        return db.read_text(paths, **kw)

    def build():
        if prior_not_zero:
            # call history: the same files were read before with not_zero=True (what read_csv does to
            # skip a header byte) -- that call must not change what later reads return
            read_bytes(paths, delimiter=delim.encode(), blocksize=blocksize, sample=False, not_zero=True)
        return [build1(blocksize)] + ([build1(blocksize2)] if blocksize2 is not None else [])

    def compute(objs, get):
        """All reads in one scheduler call; one result per read."""
        if api == "read_bytes":
            flat = [b for obj in objs for fb in obj[1] for b in fb]
            vals = dask.compute(*flat, scheduler=get) if flat else ()
            it = iter(vals)
            return [("bytes", [[next(it) for _ in fb] for fb in obj[1]], obj[2] if include_path else None)
                    for obj in objs]
        return [("lines", v, None) for v in dask.compute(*objs, scheduler=get)]

    def check(res):
        kind, val, rpaths = res
        if kind == "bytes":
            if len(val) != nfiles:
                return ("block_list_shape", f"{len(val)} block lists for {nfiles} files")
            if rpaths is not None and [p.rsplit("/", 1)[-1] for p in rpaths] != \
                    [p.rsplit("/", 1)[-1] for p in paths]:
                return ("paths_mismatch", f"{rpaths}")
            for i, (blocks, data) in enumerate(zip(val, datas)):
                cat = b"".join(blocks)
                if cat != data:
                    return ("blocks_do_not_concatenate",
                            f"file {i}: blocks {blocks!r} concatenate to {cat!r}, file is {data!r} "
                            f"(delimiter {delim!r}, blocksizes {blocksize}/{blocksize2})")
                pos = 0
                d = delim.encode()
                for b in blocks[:-1]:
                    pos += len(b)
                    if 0 < pos < len(data) and not data[:pos].endswith(d):
                        return ("boundary_not_after_delimiter",
                                f"file {i}: boundary at {pos} of {data!r}; blocks {blocks!r} "
                                f"(delimiter {delim!r}, blocksize {blocksize})")
            return None
        want = []
        for p, t in zip(paths, texts):
            for ln in ref_lines(t, delim, universal):
                want.append((ln, p.replace("simfs://", "/")) if include_path else ln)
        got = list(val)
        if include_path:
            got = [(a, "/" + b.replace("simfs://", "").lstrip("/")) for a, b in got]
        if got != want:
            return ("lines_mismatch", f"read_text(blocksize={blocksize}, linedelimiter={delim!r}, "
                                      f"files_per_partition={fpp}) -> {got!r}, file split after each "
                                      f"delimiter -> {want!r}")
        return None

    digest = ""
    if klass == "pickle":
        out.probe("pickle_boundary")
        sim = Sim(tape, max_workers=nworkers, policy="random", step_cap=5000)
        obj = build()
        simfs.STATE["log"] = fslog
        try:
            with sim:
                get = partial(dask.multiprocessing.get, pool=sim.executor)
                results.extend(compute(obj, get))
        except BaseException as e:  # noqa: BLE001
            problems.append(("read_raised", f"{type(e).__name__} at {exc_site(e)}: {e}"))
        digest = sim.digest()
        steps = sim.events
    else:
        sched = SimThreads(tape, policy=policy, step_cap=80000)
        nclients = 2 if klass == "two_clients" else 1
        if klass == "two_clients":
            out.probe("two_clients")
        if klass == "io_error":
            with tape.span("fault"):
                simfs.STATE["fault"] = {"op": ("open", "read")[tape.draw(2, "fop")],
                                        "nth": 1 + tape.draw(8, "fnth")}
            out.decoded["fault"] = dict(simfs.STATE["fault"])
        obj = build()   # graph construction in the controlling thread (no I/O faults armed for it)
        simfs.STATE["counts"] = {}
        simfs.STATE["log"] = fslog
        excs = []
        try:
            with sched:
                pool = SimThreadPool(sched, nworkers)

                def simget(dsk, keys, **kw):
                    return dask.threaded.get(dsk, keys, pool=pool, **kw)

                def client():
                    try:
                        results.extend(compute(obj, simget))
                    except OSError as e:
                        excs.append(e)

                sts = [sched.spawn(client, f"client{i}") for i in range(nclients)]
                res = sched.run()
                for st in sts:
                    if st.exc is not None:
                        problems.append(("read_raised", f"{type(st.exc).__name__} at "
                                                        f"{exc_site(st.exc)}: {st.exc}"))
                if res != "ok" and not problems:
                    problems.append(("no_termination", f"{res}: {sched.deadlock}"))
        finally:
            dask.threaded.pools.clear()
        fault_fired = simfs.STATE["fired"]
        for e in excs:
            if not (klass == "io_error" and fault_fired and "simulated I/O error" in str(e)):
                problems.append(("read_raised", f"OSError at {exc_site(e)}: {e}"))
        if klass == "io_error" and fault_fired:
            out.probe("io_error")
            out.faults["io_error"] = fault_fired
            if not excs and len(results) == nclients * (2 if blocksize2 is not None else 1):
                out.info["io_error_absorbed"] = 1
        digest = sched.digest()
        steps = sched.steps
    if not problems:
        for r in results:
            p = check(r)
            if p:
                problems.append(p)
                break
    if not problems and simfs.STATE["open_handles"]:
        problems.append(("handle_leaked", f"handles still open after the computation: "
                                          f"{sorted(simfs.STATE['open_handles'].values())}"))
    if simfs.STATE["max_open"] >= 2:
        out.probe("handles_overlap")
    out.abstract = (simfs.STATE["max_open"],)
    out.digest = dg((digest, fslog))
    out.sim_time = float(steps)
    nblocks = sum(1 for e in fslog if e[0] == "open")
    out.nontrivial = nblocks >= 2 and (simfs.STATE["max_open"] >= 2 or fault_fired > 0)
    if problems:
        out.violate(problems[0][0], problems[0][1], api=api,
                    blocksize_none=blocksize is None, delim=delim,
                    self_overlap=delim in ("aa", "aba", "||"), run_class=klass)
    simfs.STATE["log"] = None
    return out

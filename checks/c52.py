"""C52 — local diagnostics report every executed task faithfully.

Profiler: 1-3 scheduler calls inside one Profiler context under simulated
schedules and a simulated clock; the record is compared with the true
execution history (harness recorder).  Cache: consecutive calls over graphs
that share keys with a dask.cache.Cache active (cachey stub, tape-driven
eviction); values must equal the no-cache values."""
from __future__ import annotations

from checks import c01
from sim import graphgen as gg
from sim import schedrun as sr
from sim import taskfns
from sim.core import Outcome, dg
from sim.simexec import SimClock

META = {
    "level": "exploration",
    "budget": {"quick": {"seconds": 60, "runs": 3000},
               "thorough": {"seconds": 900, "runs": 10**9}},
    "rule": ("one evaluation = one generated DAG, 1-3 scheduler calls with different requests (shared keys) "
             "inside one Profiler context or with one Cache active, each call under its own simulated "
             "completion schedule, simulated clock, optional failing task, tape-driven cache eviction; "
             "distinct = distinct (workload, event digests); non-trivial = >=2 calls sharing >=1 key, or a "
             "failing task, with >=3 needed keys"),
    "abstract_measure": "distinct (|waiting|,|ready|,|running|,|cache|) tuples",
    "gates": {"quick": {"profiler_runs": 3000, "cache_runs": 3000, "cache_reused": 1000,
                        "cache_evicted": 300, "keylike_value_cached": 200, "failing_task": 500},
              "thorough": {"profiler_runs": 3000}},
    "anchors": ["dask/diagnostics/profile.py", "dask/cache.py", "dask/local.py"],
    "real": ["dask.diagnostics.Profiler", "dask.cache.Cache", "dask.local.get_async callback protocol",
             "dask.threaded.get / dask.multiprocessing.get / get_sync"],
    "stubbed": ["cachey (absent): sim/stubs/cachey_stub with tape-driven eviction",
                "timeit.default_timer in dask.diagnostics.profile and dask.cache -> simulated clock",
                "OS pools -> SimExecutor"],
    "assumptions": ["a key denotes the same computation in all graphs given to one Cache (its own precondition)",
                    "ResourceProfiler / ProgressBar (background threads with real timers) are not simulated"],
}


def tier_cfg(tier):
    return {"max_nodes": 10 if tier == "quick" else 20}


def setup(cfg):
    from sim import pin

    pin.setup_repo(need_cachey=True)


def run_one(tape, cfg):
    import cachey
    import dask.cache
    import dask.diagnostics.profile as prof_mod
    from dask.diagnostics import Profiler

    out = Outcome()
    spec = gg.gen_graph(tape, max_nodes=cfg["max_nodes"], min_nodes=2)
    keyset = {gg.K(n["key"]) for n in spec["nodes"]}
    vals, calls, deps = gg.evaluate(spec)
    mode = "profiler" if tape.chance(1, 2, "mode") is False else "cache"
    ncalls = 1 + tape.draw(3, "ncalls")
    clock = SimClock()
    saved = (prof_mod.default_timer, dask.cache.default_timer)
    prof_mod.default_timer = clock.now
    dask.cache.default_timer = clock.now
    plan, digests = [], []
    shared = 0
    seen_needed = set()
    any_fail = False
    abstract = set()
    try:
        if mode == "profiler":
            out.probe("profiler_runs")
            expected_rows = []
            import contextlib

            two = tape.chance(1, 3, "two_profilers")
            if two:
                out.probe("two_profilers_active")
            with contextlib.ExitStack() as pstack:
                prof = pstack.enter_context(Profiler())
                prof2 = pstack.enter_context(Profiler()) if two else None
                for ci in range(ncalls):
                    with tape.span("call"):
                        req_json = gg.gen_request(tape, spec)
                        request = gg.req_keys(req_json, keyset)
                        rcfg = sr.gen_cfg(tape, ("async", "threaded", "sync", "mp", "apply_async"))
                        needed = gg.needed(spec, request, deps)
                        fail = None
                        if tape.chance(1, 4, "fail"):
                            sites = [t for n in spec["nodes"] if gg.K(n["key"]) in needed
                                     for t in gg.node_call_tags(n)]
                            if sites:
                                fail = {sites[tape.draw(len(sites), "site")]: "ValueError"}
                                any_fail = True
                                out.probe("failing_task")
                    obs = sr.run_graph(tape, spec, request, rcfg, fail=fail, clock=clock)
                    plan.append({"request": req_json, "cfg": rcfg,
                                 "fail": [list(k) for k in (fail or {})]})
                    digests.append(obs.sim.digest())
                    abstract.update(obs.rec.abstract)
                    shared += len(needed & seen_needed)
                    seen_needed |= needed
                    if obs.exc is not None and (fail is None or sr.is_sim_abort(obs.exc)):
                        d = sr.describe_exc(obs.exc)
                        out.violate("get_raised", f"{d['exc_type']} at {d['site']}: {d['msg']}", **d)
                        break
                    for (what, key), t in obs.rec.times.items():
                        if what == "post":
                            expected_rows.append((repr(key), obs.rec.times[("pre", key)], t))
            if out.status != "violation":
                got = sorted((repr(r.key), r.start_time, r.end_time) for r in prof.results)
                want = sorted(expected_rows)
                if got != want:
                    missing = [w for w in want if w not in got]
                    extra = [g for g in got if g not in want]
                    out.violate("profiler_record_mismatch",
                                f"profiler rows differ from the execution history: missing {missing[:4]} "
                                f"extra {extra[:4]} (calls {plan})")
                if prof2 is not None and out.status != "violation":
                    got2 = sorted((repr(r.key), r.start_time, r.end_time) for r in prof2.results)
                    if got2 != want:
                        out.violate("profiler_record_mismatch",
                                    f"second profiler active in the same calls: {len(got2)} rows, execution "
                                    f"history has {len(want)} (calls {plan})")
                for r in prof.results:
                    if not (r.start_time <= r.end_time):
                        out.violate("profiler_times", f"start {r.start_time} > end {r.end_time} for {r.key!r}")
                if prof.start_time is None or prof.end_time is None or prof.start_time > prof.end_time:
                    out.violate("profiler_times", "context start/end times inconsistent")
        else:
            out.probe("cache_runs")
            evict_den = (0, 0, 6, 3)[tape.draw(4, "evict")]

            def decider(kind, key):
                if not evict_den:
                    return False
                hit = tape.draw(evict_den, "ev") == evict_den - 1
                if hit:
                    out.probe("cache_evicted")
                return hit

            cachey.DECIDER[0] = decider
            cache = dask.cache.Cache(1e9)
            try:
                with cache:
                    for ci in range(ncalls):
                        with tape.span("call"):
                            req_json = gg.gen_request(tape, spec)
                            request = gg.req_keys(req_json, keyset)
                            rcfg = sr.gen_cfg(tape, ("async", "threaded", "sync", "apply_async"))
                            needed = gg.needed(spec, request, deps)
                            fail = None
                            if tape.chance(1, 6, "fail"):
                                sites = [t for n in spec["nodes"] if gg.K(n["key"]) in needed
                                         for t in gg.node_call_tags(n)]
                                if sites:
                                    fail = {sites[tape.draw(len(sites), "site")]: "ValueError"}
                                    any_fail = True
                                    out.probe("failing_task")
                        cached_before = set(cache.cache.data)
                        if cached_before & needed:
                            out.probe("cache_reused")
                            for k in cached_before & needed:
                                v = cache.cache.data[k]
                                if _looks_like_graph_syntax(v, keyset):
                                    out.probe("keylike_value_cached")
                        obs = sr.run_graph(tape, spec, request, rcfg, fail=fail, clock=clock)
                        plan.append({"request": req_json, "cfg": rcfg,
                                     "fail": [list(k) for k in (fail or {})],
                                     "cached_before": sorted(map(repr, cached_before))})
                        digests.append(obs.sim.digest())
                        abstract.update(obs.rec.abstract)
                        shared += len(needed & seen_needed)
                        seen_needed |= needed
                        if obs.exc is not None:
                            raised_armed = any(e[0] == "raise" for e in obs.log)
                            if fail is not None and raised_armed and not sr.is_sim_abort(obs.exc) \
                                    and "boom-" in str(obs.exc):
                                continue
                            d = sr.describe_exc(obs.exc)
                            out.violate("cache_changes_outcome",
                                        f"with Cache active the call raised {d['exc_type']} at {d['site']}: "
                                        f"{d['msg']} (calls {plan})", **d)
                            break
                        if fail is not None and any(e[0] == "raise" for e in obs.log):
                            out.violate("failure_swallowed", "armed task raised but call returned")
                            break
                        expected = gg.expected_result(request, vals)
                        if taskfns.norm(obs.value) != taskfns.norm(expected):
                            out.violate("cache_changes_value",
                                        f"with Cache active got {obs.value!r}, without {expected!r} "
                                        f"(calls {plan})")
                            break
                        # a key served from the cache is a literal for this call: tasks that only it
                        # needed must not run
                        need2, todo = set(), list(gg.flatten_request(request))
                        while todo:
                            k = todo.pop()
                            if k in need2:
                                continue
                            need2.add(k)
                            if k not in cached_before:
                                todo.extend(deps[k])
                        ran = {e[3] for e in obs.log if e[0] == "cb" and e[1] == "rec" and e[2] == "pretask"}
                        extra = ran - (need2 - cached_before)
                        if extra:
                            out.violate("cached_key_recomputed_or_ancestors_ran",
                                        f"tasks {sorted(map(repr, extra))} ran although the cache held "
                                        f"{sorted(map(repr, cached_before & need2))} (calls {plan})")
                            break
            finally:
                cachey.DECIDER[0] = None
    finally:
        prof_mod.default_timer, dask.cache.default_timer = saved
    out.decoded = {"graph": spec, "mode": mode, "calls": plan}
    out.wdigest = dg((spec, mode, [p["request"] for p in plan]))
    out.digest = dg(digests)
    out.abstract = tuple(abstract)
    out.policy = mode
    out.klass = mode + ("+task_failure" if any_fail else "")
    if any_fail:
        out.faults["task_raises"] = 1
    if out.probes.get("cache_evicted"):
        out.faults["cache_eviction"] = out.probes["cache_evicted"]
    out.sim_time = clock.now() - 1000.0
    out.nontrivial = len(seen_needed) >= 3 and (shared >= 1 or any_fail)
    return out


def _looks_like_graph_syntax(v, keyset):
    try:
        if isinstance(v, (str, tuple)) and v in keyset:
            return True
    except TypeError:
        pass
    if isinstance(v, tuple) and v and callable(v[0]):
        return True
    if isinstance(v, list):
        return any(_looks_like_graph_syntax(x, keyset) for x in v)
    return False

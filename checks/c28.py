"""C28 — random arrays are reproducible when seeded and independent when not.

Seeded arrays are built twice from fresh generators and computed under
different entry points / simulated completion schedules / worker counts, across
the cloudpickle boundary, recomputed, and (a slice) in a fresh interpreter: all
results must be bit-identical.  Unseeded pairs (OS entropy served by the
simulator's entropy seam) must get distinct names and keep their own draw when
computed together.  choice(replace=False) must return distinct members."""
from __future__ import annotations

import json
import os
import subprocess
import sys

from sim import schedrun as sr
from sim.core import Outcome, dg, exc_site

META = {
    "level": "exploration",
    "budget": {"quick": {"seconds": 60, "runs": 700},
               "thorough": {"seconds": 900, "runs": 10**9}},
    "rule": ("one evaluation = one (API Generator/RandomState, distribution, shape, chunks, seed, way the seed is "
             "given: constructor / RandomState.seed() / module-level da.random.seed(); seeds 0 and 1 over-sampled) x 3 computations "
             "under different entry points / simulated schedules / worker counts (incl. cloudpickle boundary) "
             "+ recomputation (+ fresh interpreter for a slice); or an unseeded pair computed together vs alone; "
             "or choice(replace=False); distinct = distinct (workload, event digests); non-trivial = >=2 "
             "blocks and >=2 jobs open at once"),
    "abstract_measure": "distinct (mode, api, distribution) triples",
    "gates": {"quick": {"seeded": 3000, "unseeded_pair": 1500, "choice_noreplace": 1000,
                        "multi_open": 3000, "mp_boundary": 1000, "fresh_interpreter": 8,
                        "seeded_via_seed_method_zero": 20, "numpy_rng_wrapped_twice": 100},
              "thorough": {"seeded": 3000}},
    "anchors": ["dask/array/random.py"],
    "real": ["dask.array.random Generator / RandomState / module-level API, _spawn_bitgens, random_state_data",
             "dask.array graph construction + optimisation", "get_async / threaded.get / multiprocessing.get"],
    "stubbed": ["OS entropy behind unseeded generators -> simulator entropy seam "
                "(numpy.random.bit_generator.randbits)", "OS pools -> SimExecutor"],
    "assumptions": ["comparison is bit-exact only between computations of the same constructor arguments; "
                    "nothing is compared with NumPy's own stream"],
}

DISTS_GEN = ["random", "normal", "integers", "uniform", "poisson", "standard_normal", "exponential", "choice"]
DISTS_RS = ["random_sample", "normal", "randint", "uniform", "poisson", "standard_normal", "exponential",
            "choice"]


GC_EACH_RUN = True  # see sim/worker.run_tape


def tier_cfg(tier):
    return {"maxdim": 6 if tier == "quick" else 12, "fresh_den": 120 if tier == "quick" else 60}


def setup(cfg):
    import dask.array  # noqa: F401

    # Warm-up: lazily initialised paths inside dask/array/random.py (backend dispatch,
    # cached module-level state) must run before any traced (line pre-empted) execution,
    # otherwise the first traced run of a process sees more line events than a later one
    # and a replay in a fresh interpreter would draw differently from the tape.
    import dask.array as da

    for api, dists in (("gen", DISTS_GEN), ("rs", DISTS_RS)):
        for dist in dists:
            build(api, dist, (3,), (2,), 1).compute(scheduler="sync")
            build(api, dist, (3,), (2,), None).compute(scheduler="sync")
    da.random.random((2,), chunks=1).compute(scheduler="sync")
    da.random.default_rng(3).choice(5, size=(2,), replace=False, chunks=(2,)).compute(scheduler="sync")
    da.random.RandomState(3).choice(da.from_array(__import__("numpy").arange(4), chunks=2), size=(2,),
                                    replace=False, chunks=(2,)).compute(scheduler="sync")


def chunks_for(tape, shape):
    return tuple(max(1, 1 + tape.draw(s, "chunk")) if s else 1 for s in shape)


def build(api, dist, shape, chunks, seed, variant=0, via=0):
    """variant != 0: the same seed/shape/chunks but another distribution parameter
    (passed positionally or by keyword, as users do) -> must be a different array.
    via (RandomState only): 0 seed given to the constructor, 1 RandomState().seed(seed),
    2 the module-level da.random.seed(seed) followed by the module-level function."""
    import numpy as np

    import dask.array as da

    if api != "gen" and via == 3:
        # module-level seed in this thread, array constructed by another thread (a helper thread
        # that only builds the graph; it is joined before anything else happens)
        import threading

        da.random.seed(seed)
        box = {}
        th = threading.Thread(target=lambda: box.update(a=build(api, dist, shape, chunks, seed, variant, via=-2)))
        th.start()
        th.join()
        return box["a"]
    if api == "gen":
        rng = da.random.default_rng(seed)
    elif via == -2:
        rng = da.random               # already seeded by the calling thread
    elif via == 1:
        rng = da.random.RandomState()
        rng.seed(seed)
    elif via == 2:
        da.random.seed(seed)
        rng = da.random
    else:
        rng = da.random.RandomState(seed)
    f = getattr(rng, dist)
    if dist in ("integers", "randint"):
        if variant == 1:
            return f(0, high=500, size=shape, chunks=chunks)
        if variant == 2:
            return f(0, 1000, size=shape, chunks=chunks, dtype=np.int32)
        return f(0, high=1000, size=shape, chunks=chunks)
    if dist == "poisson":
        return f(3.5 if not variant else 9.0, size=shape, chunks=chunks)
    if dist == "normal":
        if variant == 2:
            return f(loc=1.0, scale=5.0, size=shape, chunks=chunks)
        return f(1.0 if not variant else 3.0, 2.0, size=shape, chunks=chunks)
    if dist == "uniform":
        if variant == 2:
            return f(low=-1.0, high=4.0, size=shape, chunks=chunks)
        return f(-1.0, 1.0 if not variant else 2.0, size=shape, chunks=chunks)
    if dist == "exponential":
        return f(2.0 if not variant else 0.5, size=shape, chunks=chunks)
    if dist == "random":
        return f(shape, chunks=chunks, dtype=np.float32) if variant else f(shape, chunks=chunks)
    if dist == "random_sample":
        return f(shape, chunks=chunks)
    if dist == "choice":   # with replacement: multi-block output is allowed
        return f(50, size=shape, replace=True, chunks=chunks)
    return f(size=shape, chunks=chunks)


HAS_VARIANT = {"integers", "randint", "poisson", "normal", "uniform", "exponential", "random"}


FRESH_SRC = r"""
import sys, json
sys.path.insert(0, {repo!r}); sys.path.insert(0, {verif!r})
from checks.c28 import build
a = build({api!r}, {dist!r}, tuple({shape!r}), tuple({chunks!r}), {seed!r}, via={via!r})
import numpy as np
v = a.compute(scheduler="sync")
print("RESULT " + json.dumps([a.name, str(v.dtype), v.tobytes().hex()]))
"""


def run_one(tape, cfg):
    import numpy as np

    import dask
    import dask.array as da

    out = Outcome()
    with tape.span("workload"):
        mode = tape.weighted([(3, "seeded"), (2, "unseeded_pair"), (2, "choice")], "mode")
        api = ("gen", "rs")[tape.draw(2, "api")]
        di = tape.draw(len(DISTS_GEN), "dist")
        dist = DISTS_GEN[di] if api == "gen" else DISTS_RS[di]
        ndim = 1 + tape.draw(2, "ndim")
        shape = tuple(1 + tape.draw(cfg["maxdim"], "dim") for _ in range(ndim))
        chunks = chunks_for(tape, shape)
        seed = tape.draw(10000, "seed") if tape.draw(6, "smallseed") else tape.draw(2, "seed01")
        via = tape.draw(4, "via") if api == "rs" and mode == "seeded" else 0
    wl = {"mode": mode, "api": api, "dist": dist, "shape": shape, "chunks": chunks, "seed": seed, "via": via}
    out.decoded = wl
    out.abstract = ((mode, api, dist),)
    out.probe({"seeded": "seeded", "unseeded_pair": "unseeded_pair", "choice": "choice_noreplace"}[mode])
    digests, sims = [], []

    e2 = {"runs": 0, "parallel": 0}

    def compute_threads(x, nclients=1):
        """E2: block tasks on baton-passed worker threads, pre-empted at lines of
        dask/array/random.py (state shared between concurrently running blocks shows here).
        nclients > 1: several callers compute the same collection at overlapping times; the list of
        their results is returned."""
        import dask.threaded
        from sim.simthreads import SimThreadPool, SimThreads

        sched = SimThreads(tape, policy=tape.choice(SimThreads.POLICIES, "tpolicy"), step_cap=200000,
                           trace_files=("dask/array/random.py",), trace_den=(3, 6, 12)[tape.draw(3, "tden")])
        box = {}
        try:
            with sched:
                pool = SimThreadPool(sched, 2 + tape.draw(3, "tnw"))

                def simget(dsk, keys, **kw):
                    return dask.threaded.get(dsk, keys, pool=pool, **kw)

                def client(i=0):
                    box[i] = dask.compute(*x, scheduler=simget) if isinstance(x, tuple) \
                        else x.compute(scheduler=simget)

                sts = [sched.spawn(lambda i=i: client(i), f"client{i}") for i in range(nclients)]
                res = sched.run()
                for st in sts:
                    if st.exc is not None:
                        raise st.exc
                if res != "ok":
                    raise RuntimeError(f"simulated threads: {res} {sched.deadlock}")
        finally:
            dask.threaded.pools.clear()
        digests.append(sched.digest())
        e2["runs"] += 1
        e2["parallel"] += sched.probes.get("parallel_items", 0)
        return box[0] if nclients == 1 else [box[i] for i in range(nclients)]

    def compute(x, run=None):
        if run is None and tape.draw(4, "engine") == 3:
            return compute_threads(x)
        r = run or sr.SimRun(tape)
        with r:
            v = dask.compute(*x, scheduler=r.get) if isinstance(x, tuple) else x.compute(scheduler=r.get)
        digests.append(r.sim.digest())
        sims.append(r)
        return v

    def same(a, b):
        return a.dtype == b.dtype and a.shape == b.shape and a.tobytes() == b.tobytes()

    try:
        if mode == "seeded":
            a1 = build(api, dist, shape, chunks, seed, via=via)
            a2 = build(api, dist, shape, chunks, seed, via=via)
            if via:
                out.probe("seeded_via_seed_method")
                if seed == 0:
                    out.probe("seeded_via_seed_method_zero")
            if a1.name != a2.name:
                out.violate("seeded_names_differ", f"{wl}: names {a1.name} vs {a2.name}")
            else:
                v1 = compute(a1)
                v2 = compute(a2)
                v3 = compute(a1)          # recomputation of the same object, another schedule
                v4 = a2.compute(scheduler="sync")
                for nm, v in (("second build", v2), ("recomputation", v3), ("sync scheduler", v4)):
                    if not same(v1, v):
                        out.violate("seeded_values_differ",
                                    f"{wl}: {nm} differs from the first computation")
                        break
                if out.status != "violation" and dist in HAS_VARIANT and tape.chance(1, 2, "sibling"):
                    # same seed, another distribution parameter: a different array, which must keep
                    # its own values when computed together with the first one
                    variant = 1 + tape.draw(2, "variant")
                    sib = build(api, dist, shape, chunks, seed, variant=variant, via=via)
                    wl["sibling_variant"] = variant
                    out.probe("seeded_sibling")
                    solo = sib.compute(scheduler="sync")
                    t1, t2 = compute((a1, sib))
                    if not same(t1, v1) or not same(t2, solo):
                        out.violate("together_differs_from_alone",
                                    f"{wl}: the array and a same-seed array with another parameter, computed "
                                    f"together, differ from their solo computations (names {a1.name} / "
                                    f"{sib.name})")
                if out.status != "violation" and tape.draw(cfg["fresh_den"], "fresh") == 0:
                    from sim import pin

                    src = FRESH_SRC.format(repo=pin.REPO, verif=pin.VERIF_DIR, api=api, dist=dist,
                                           shape=list(shape), chunks=list(chunks), seed=seed, via=via)
                    p = subprocess.run([sys.executable, "-c", src], capture_output=True, text=True,
                                       env=dict(os.environ, PYTHONHASHSEED="4711"), timeout=180)
                    line = [ln for ln in p.stdout.splitlines() if ln.startswith("RESULT ")]
                    if not line:
                        raise pin.HarnessError("fresh interpreter failed: " + p.stderr[-800:])
                    out.probe("fresh_interpreter")
                    name, dt, hexbytes = json.loads(line[0][7:])
                    if name != a1.name:
                        out.violate("seeded_names_differ", f"{wl}: fresh interpreter name {name} vs {a1.name}")
                    elif dt != str(v1.dtype) or hexbytes != v1.tobytes().hex():
                        out.violate("seeded_values_differ", f"{wl}: fresh interpreter values differ")
        elif mode == "unseeded_pair":
            how = tape.draw(4, "how")
            if how == 3 and api != "gen":
                how = 0
            if how == 3:      # one unseeded numpy BitGenerator / Generator wrapped by two dask generators
                npr = np.random.PCG64() if tape.chance(1, 2, "npbitgen") else np.random.default_rng()
                out.probe("numpy_rng_wrapped_twice")
                x = da.random.default_rng(npr).random(shape, chunks=chunks)
                y = da.random.default_rng(npr).random(shape, chunks=chunks)
            elif how == 0:    # two separately created generators
                x = build(api, dist, shape, chunks, None)
                y = build(api, dist, shape, chunks, None)
            elif how == 1:    # one unseeded generator, two calls
                rng = da.random.default_rng() if api == "gen" else da.random.RandomState()
                f = getattr(rng, "random" if api == "gen" else "random_sample")
                x, y = f(shape, chunks=chunks), f(shape, chunks=chunks)
            else:             # module-level API
                x = da.random.random(shape, chunks=chunks)
                y = da.random.random(shape, chunks=chunks)
            wl["how"] = how
            if x.name == y.name:
                out.violate("unseeded_names_equal", f"{wl}: two separately created unseeded arrays share "
                                                    f"the name {x.name}")
            else:
                vx, vy = compute((x, y))
                sx = compute(x)
                sy = compute(y)
                if not same(vx, sx) or not same(vy, sy):
                    out.violate("together_differs_from_alone",
                                f"{wl}: computed together != computed alone")
                elif x.size >= 4 and same(vx, vy):
                    out.violate("unseeded_values_equal", f"{wl}: two unseeded arrays have identical values")
        else:
            with tape.span("choice"):
                pop_n = 1 + tape.draw(12, "popn")
                as_array = tape.chance(1, 2, "asarray")
                k_shape = (1 + tape.draw(pop_n, "k"),)
                if tape.chance(1, 3, "2d") and pop_n >= 4:
                    r = 1 + tape.draw(2, "r")
                    k_shape = (r, max(1, min(pop_n // r, 1 + tape.draw(pop_n, "c"))))
                kchunks = chunks_for(tape, k_shape) if tape.chance(1, 2, "kch") else k_shape
            wl.update({"pop_n": pop_n, "as_array": as_array, "k_shape": k_shape, "kchunks": kchunks})
            population = np.arange(100, 100 + pop_n)
            rng = da.random.default_rng(seed) if api == "gen" else da.random.RandomState(seed)
            a = da.from_array(population, chunks=max(1, pop_n // 2)) if as_array else pop_n
            try:
                c = rng.choice(a, size=k_shape, replace=False, chunks=kchunks)
            except NotImplementedError:
                out.status = "discard"      # documented: multi-chunk output without replacement
                return out
            v = compute(c)
            v2 = compute(c)
            flat = list(np.asarray(v).ravel())
            pop = set(population.tolist()) if as_array else set(range(pop_n))
            both = None
            if tape.chance(1, 3, "two_clients"):
                # two callers compute the same choice array at overlapping times
                out.probe("choice_two_clients")
                both = compute_threads(c, nclients=2)
            if not same(np.asarray(v), np.asarray(v2)):
                out.violate("seeded_values_differ", f"{wl}: choice recomputation differs")
            elif both is not None and not all(same(np.asarray(v), np.asarray(b)) for b in both):
                out.violate("seeded_values_differ", f"{wl}: two callers computing the same choice array at "
                                                    f"overlapping times got other values than a caller alone")
            elif tuple(np.asarray(v).shape) != tuple(k_shape):
                out.violate("choice_shape", f"{wl}: shape {np.asarray(v).shape}")
            elif any(x not in pop for x in flat):
                out.violate("choice_not_member", f"{wl}: {flat} not within the population")
            elif len(set(flat)) != len(flat):
                out.violate("choice_not_distinct", f"{wl}: choice(replace=False) returned duplicates "
                                                   f"{sorted(flat)}")
    except Exception as e:  # noqa: BLE001
        from sim.pin import HarnessError

        if isinstance(e, HarnessError):
            raise
        out.violate("random_raised", f"{wl}: {type(e).__name__} at {exc_site(e)}: {e}",
                    exc_type=type(e).__name__)
    out.wdigest = dg(wl)
    out.digest = dg(digests)
    mo = max([s.sim.max_open for s in sims] or [0])
    if mo >= 2:
        out.probe("multi_open")
    if any(s.entry.startswith("mp") for s in sims):
        out.probe("mp_boundary")
    out.policy = sims[0].policy if sims else "none"
    out.sim_time = float(sum(s.sim.events for s in sims))
    nblocks = 1
    for s, c in zip(shape, chunks):
        nblocks *= -(-s // c)
    out.nontrivial = nblocks >= 2 and mo >= 2
    return out

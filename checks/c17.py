"""C17 — configuration changes are scoped, atomic and spelling-insensitive.

History-based: a tape-generated sequence of nested config.set contexts (some of
which must fail part-way), exits, gets under the other spelling, and the pure
helpers, executed against the real dask.config and a reference model."""
from __future__ import annotations

import copy

from sim.core import Outcome, dg, exc_site
from sim.models import config as cm

OWNS_GLOBALS = True

META = {
    "level": "exploration",
    "budget": {"quick": {"seconds": 45, "runs": 12000},
               "thorough": {"seconds": 600, "runs": 10**9}},
    "rule": ("one evaluation = one history of 2..14 (thorough 30) operations {enter config.set(mapping/kwargs of "
             "1-3 dotted keys in either spelling), exit innermost, set that fails part-way (path through a "
             "scalar), get under the other spelling, update/merge/collect_env/serialize} on a private config "
             "dict or the global one; or (1 in 5) an E2 run: 2-3 threads issuing persistent set() calls, some "
             "failing part-way, on one private config with config_lock simulated and dask/config.py pre-empted at "
             "lines, judged against all serial orders; distinct = distinct history digests; non-trivial = >=3 "
             "operations with >=1 nested context or >=1 failing set (E2: a thread blocked on the lock)"),
    "abstract_measure": "distinct (context depth, number of top-level verif keys) pairs",
    "gates": {"quick": {"failing_set": 2000, "failing_set_after_success": 500, "nested_depth2": 2000,
                        "alt_spelling_hit": 2000, "e2_runs": 2000, "e2_failing_set": 1000,
                        "lock_contended": 2000},
              "thorough": {"failing_set": 2000}},
    "anchors": ["dask/config.py"],
    "real": ["dask.config.set/_assign/__exit__, get, canonical_name, update, merge, collect_env, "
             "serialize/deserialize"],
    "stubbed": ["E2 slice: the lock= argument of config.set (config_lock) -> SimLock"],
    "assumptions": ["context enter/exit histories are single-threaded (contexts of different threads do not nest); "
                    "the E2 slice uses persistent set() calls only and asks that concurrent calls are serializable "
                    "and that a failing call changes nothing",
                    "keys live in a private verif-* namespace so real dask configuration is never touched"],
}

TOPS = ("verif-a", "verif_a", "verif-b", "verif_c")
SUBS = ("x", "y-z", "y_z", "w")
LEAF = ("p", "q-r", "q_r")
SER_ALPHA = ("a", "?", ">", "~", "/", ":", " ", "é", "=", "-", "_", "{", "0")


class _InterruptingMapping(dict):
    """A mapping whose iteration is cut short by a BaseException after `after` items
    (stands for an interrupt arriving while config.set walks its argument)."""

    def __init__(self, items, after, exc_type):
        super().__init__(items)
        self._items, self._after, self._exc = list(items), after, exc_type

    def items(self):
        for j, kv in enumerate(self._items):
            if j == self._after:
                raise self._exc("interrupt inside config.set")
            yield kv


def tier_cfg(tier):
    return {"max_ops": 14 if tier == "quick" else 30}


def gen_key(tape, nested_bias=True):
    comps = [TOPS[tape.draw(len(TOPS), "top")]]
    n = tape.draw(3, "depth")
    if n >= 1:
        comps.append(SUBS[tape.draw(len(SUBS), "sub")])
    if n >= 2:
        comps.append(LEAF[tape.draw(len(LEAF), "leaf")])
    return ".".join(comps)


def gen_value(tape, allow_dict=True):
    r = tape.draw(6 if allow_dict else 4, "vkind")
    if r <= 2:
        return tape.draw(50, "vint")
    if r == 3:
        return None if tape.chance(1, 2, "none") else [1, 2]
    if r == 4:
        return {SUBS[tape.draw(len(SUBS), "sub")]: tape.draw(9, "vv")}
    return {"x": {LEAF[tape.draw(len(LEAF), "leaf")]: tape.draw(9, "vv")}}


def gen_tree(tape, depth=0):
    """A small nested dict over the universe (initial config / update operands)."""
    d = {}
    names = TOPS if depth == 0 else (SUBS if depth == 1 else LEAF)
    for _ in range(tape.draw(3, "nkeys") + (1 if depth == 0 else 0)):
        k = names[tape.draw(len(names), "k")]
        if cm.canon(k, d) in d:
            continue
        if depth < 2 and tape.chance(1, 2, "sub"):
            d[k] = gen_tree(tape, depth + 1)
        else:
            d[k] = tape.draw(50, "leafv")
    return d


def verif_view(cfg):
    return {k: v for k, v in cfg.items()
            if k.replace("_", "-") in ("verif-a", "verif-b", "verif-c")}


def _orders(seqs):
    """All merges of the per-thread operation sequences (thread order kept)."""
    if all(not q for q in seqs):
        yield []
        return
    for i, q in enumerate(seqs):
        if q:
            rest = [list(x) for x in seqs]
            head = rest[i].pop(0)
            for tail in _orders(rest):
                yield [head] + tail


def run_threads(tape, cfg, out):
    """E2 slice: 2-3 threads issue persistent set() calls (some failing part-way) on one private
    configuration; config_lock is a simulated lock, dask/config.py is pre-empted at line
    granularity.  Oracle: the observed per-call outcomes and the final configuration are those of
    SOME serial order of the calls (a failing call contributes nothing)."""
    import dask.config as dc
    from sim.simthreads import SimLock, SimThreads

    conf = {}
    with tape.span("init"):
        init = gen_tree(tape)
    for k, v in init.items():
        conf[k] = copy.deepcopy(v)
    with tape.span("programs"):
        nthreads = 2 + tape.draw(2, "nthreads")
        programs = []
        for t in range(nthreads):
            prog = []
            for _ in range(1 + tape.draw(2 if nthreads == 3 else 3, "ncalls")):
                n = 1 + tape.draw(3, "nkeys")
                mapping = {}
                for _ in range(n):
                    mapping[gen_key(tape)] = gen_value(tape)
                prog.append(list(mapping.items()))
            programs.append(prog)
        policy = tape.choice(SimThreads.POLICIES, "policy")
        trace_den = (4, 8, 20)[tape.draw(3, "tden")]
    lock = SimLock()
    sched = SimThreads(tape, policy=policy, step_cap=200000, trace_files=("dask/config.py",),
                       trace_den=trace_den)
    observed = {}

    def body(t):
        def run():
            for j, items in enumerate(programs[t]):
                try:
                    dc.set({k: copy.deepcopy(v) for k, v in items}, config=conf, lock=lock)
                    observed[(t, j)] = "ok"
                except (TypeError, ValueError, KeyError, AttributeError) as e:
                    observed[(t, j)] = "raised"
        return run

    with sched:
        sts = [sched.spawn(body(t), name=f"cfg{t}") for t in range(nthreads)]
        res = sched.run()
    wl = {"init": init, "programs": programs, "policy": policy, "threads": True}
    out.decoded = wl
    out.wdigest = dg(wl)
    out.digest = sched.digest()
    out.policy = policy
    out.klass = "threads"
    out.probes.update(sched.probes)
    out.probe("e2_runs")
    out.sim_time = float(sched.steps)
    out.nontrivial = sched.probes.get("lock_contended", 0) > 0
    for st in sts:
        if st.exc is not None:
            return out.violate("set_raised_unexpectedly", f"thread {st.name}: {type(st.exc).__name__}: {st.exc}")
    if res != "ok":
        return out.violate("no_termination", f"{res}: {sched.deadlock}")
    final = verif_view(conf)
    seqs = [[(t, j) for j in range(len(programs[t]))] for t in range(nthreads)]
    any_fail = False
    for order in _orders(seqs):
        model = copy.deepcopy(verif_view(init))
        outcomes = {}
        for (t, j) in order:
            try:
                model = cm.model_set(model, programs[t][j])
                outcomes[(t, j)] = "ok"
            except cm.SetFails:
                outcomes[(t, j)] = "raised"
                any_fail = True
        if outcomes == observed and model == final:
            if any_fail:
                out.probe("e2_failing_set")
            return out
    return out.violate("not_serializable",
                       f"no serial order of the set calls gives the observed outcomes {observed} and final "
                       f"configuration {final} (initial {verif_view(init)}, programs {programs})")


def run_one(tape, cfg):
    import dask
    import dask.config as dc

    out = Outcome()
    if tape.chance(1, 5, "threads"):
        return run_threads(tape, cfg, out)
    hist = []
    use_global = tape.chance(1, 2, "global")
    if use_global:
        conf = dc.config
        saved_global = copy.deepcopy(conf)
        kw = {}
    else:
        conf = {}
        kw = {"config": conf}
    with tape.span("init"):
        init = gen_tree(tape)
    for k, v in init.items():
        conf[k] = copy.deepcopy(v)
    stack = []  # (snapshot before enter, context manager)
    depth_seen = 0
    abstract = set()
    nops = 2 + tape.draw(cfg["max_ops"] - 1, "nops")
    nfail = 0
    try:
        for _ in range(nops):
            if out.status == "violation":
                break
            with tape.span("op"):
                op = tape.weighted([(6, "enter"), (4, "exit"), (3, "get"), (1, "update"),
                                    (1, "merge"), (1, "env"), (1, "serialize"), (1, "set_interrupted")], "op")
                if op == "set_interrupted":
                    # fault: a KeyboardInterrupt / SystemExit arrives inside the set() call after some
                    # keys were assigned (raised by the mapping the call iterates over); the call
                    # raises, so the configuration must be what it was before
                    n = 2 + tape.draw(2, "nkeys")
                    items = [(gen_key(tape), gen_value(tape)) for _ in range(n)]
                    after = 1 + tape.draw(n - 1, "after")
                    exc_type = (KeyboardInterrupt, SystemExit, GeneratorExit)[tape.draw(3, "bexc")]
                    before = copy.deepcopy(verif_view(conf))
                    hist.append(["set_interrupted", [[k, v] for k, v in items], after, exc_type.__name__])
                    out.probe("set_interrupted_by_baseexception")
                    raised = None
                    try:
                        dc.set(_InterruptingMapping(items, after, exc_type), **kw)
                    except BaseException as e:  # noqa: BLE001
                        raised = e
                    if not isinstance(raised, exc_type):
                        # the call may fail earlier for its own reasons (a path through a scalar): fine,
                        # it raised all the same
                        if raised is None:
                            out.violate("interrupt_swallowed", f"set() swallowed {exc_type.__name__} "
                                                               f"(history {hist})")
                            continue
                    if verif_view(conf) != before:
                        out.violate("failed_set_changed_config",
                                    f"set() aborted by {type(raised).__name__} left config={verif_view(conf)}, "
                                    f"before the call {before} (history {hist})", where="interrupted")
                    continue
                if op == "enter":
                    if len(stack) >= 5:
                        continue
                    n = 1 + tape.draw(3, "nkeys")
                    items = [(gen_key(tape), gen_value(tape)) for _ in range(n)]
                    use_kwargs = tape.chance(1, 4, "kwargs")
                    if use_kwargs:
                        items = [(k.replace("-", "_"), v) for k, v in items]
                        # kwargs cannot repeat a name
                        seen, it2 = set(), []
                        for k, v in items:
                            if k not in seen:
                                seen.add(k)
                                it2.append((k, v))
                        items = it2
                    before = copy.deepcopy(verif_view(conf))
                    try:
                        expect = cm.model_set(before, items)
                        will_fail = False
                    except cm.SetFails:
                        expect, will_fail = None, True
                    mapping = None
                    try:
                        if use_kwargs:
                            ctx = dc.set(**{k.replace(".", "__"): copy.deepcopy(v)
                                            for k, v in items}, **kw)
                        else:
                            # a mapping that can hold the same dotted key twice in different spellings
                            mapping = {}
                            for k, v in items:
                                mapping[k] = copy.deepcopy(v)
                            items = list(mapping.items())
                            try:
                                expect = cm.model_set(before, items)
                                will_fail = False
                            except cm.SetFails:
                                expect, will_fail = None, True
                            ctx = dc.set(mapping, **kw)
                        raised = None
                    except Exception as e:  # noqa: BLE001
                        raised = e
                    hist.append(["set", [[k, v] for k, v in items], "kwargs" if use_kwargs else "arg",
                                 "raised" if raised is not None else "ok"])
                    now = verif_view(conf)
                    if raised is not None:
                        nfail += 1
                        out.probe("failing_set")
                        if will_fail and items and _first_fail_index(before, items) > 0:
                            out.probe("failing_set_after_success")
                        if not will_fail:
                            out.violate("set_raised_unexpectedly",
                                        f"{type(raised).__name__} at {exc_site(raised)}: {raised} "
                                        f"(history {hist})", exc_type=type(raised).__name__)
                        elif now != before:
                            out.violate("failed_set_not_atomic",
                                        f"set raised {type(raised).__name__} but left config changed: "
                                        f"before={before} after={now} (history {hist})")
                        continue
                    if will_fail:
                        # the model says the path runs through a scalar; dask accepted it
                        out.info["model_predicted_failure_but_ok"] = 1
                        ctx.__exit__(None, None, None)
                        hist.append(["exit-immediately"])
                        if verif_view(conf) != before:
                            out.violate("exit_not_restored", f"history {hist}")
                        continue
                    stack.append((before, ctx))
                    depth_seen = max(depth_seen, len(stack))
                    if len(stack) >= 2:
                        out.probe("nested_depth2")
                    if now != expect:
                        out.violate("set_result_mismatch",
                                    f"after set: config={now} model={expect} (history {hist})")
                        continue
                    # every key just set reads back under the other spelling
                    for k, v in items:
                        ak = ".".join(cm.alt(c) for c in k.split("."))
                        want = cm.model_get(expect, k)
                        got = dc.get(ak, default=cm.MISSING, **kw)
                        if ak != k:
                            out.probe("alt_spelling_hit")
                        if want is cm.MISSING:
                            continue  # overwritten by a later key of the same call
                        if got is cm.MISSING or got != want:
                            out.violate("get_other_spelling",
                                        f"get({ak!r}) -> {got!r}, model {want!r} (history {hist})")
                            break
                elif op == "exit":
                    if not stack:
                        continue
                    before, ctx = stack.pop()
                    ctx.__exit__(None, None, None)
                    hist.append(["exit"])
                    now = verif_view(conf)
                    if now != before:
                        out.violate("exit_not_restored",
                                    f"after exit: config={now} expected={before} (history {hist})")
                elif op == "get":
                    k = gen_key(tape)
                    ak = ".".join(cm.alt(c) for c in k.split("."))
                    view = verif_view(conf)
                    want = cm.model_get(view, k)
                    got = dc.get(ak, default=cm.MISSING, **kw)
                    hist.append(["get", ak])
                    if not (got is want or got == want):
                        out.violate("get_mismatch", f"get({ak!r}) -> {got!r}, model {want!r} "
                                                    f"(history {hist})")
                elif op == "update":
                    a, b = gen_tree(tape), gen_tree(tape)
                    prio = "new" if tape.chance(1, 3, "prio") is False else "old"
                    if prio == "old" and _type_conflict(a, b):
                        continue
                    want = cm.model_update(a, b, prio)
                    a0 = copy.deepcopy(a)
                    got = dc.update(a, copy.deepcopy(b), priority=prio)
                    hist.append(["update", a0, b, prio])
                    if got != want or a != want:
                        out.violate("update_mismatch", f"update({a0}, {b}, {prio}) -> {got}, model {want}")
                elif op == "merge":
                    ds = [gen_tree(tape) for _ in range(1 + tape.draw(3, "nd"))]
                    want = cm.model_merge(ds)
                    ds0 = copy.deepcopy(ds)
                    got = dc.merge(*ds)
                    hist.append(["merge", ds0])
                    if got != want:
                        out.violate("merge_mismatch", f"merge{tuple(ds0)} -> {got}, model {want}")
                    elif ds != ds0:
                        out.violate("merge_mutated_input", f"merge changed its arguments: {ds0} -> {ds}")
                elif op == "env":
                    env, exp = {}, []
                    for _ in range(1 + tape.draw(3, "nenv")):
                        a = ("FOO", "BAR_BAZ", "QUX")[tape.draw(3, "e0")]
                        b = ("X", "Y_Z", None)[tape.draw(3, "e1")]
                        val = tape.draw(40, "ev")
                        raw = str(val) if tape.chance(1, 3, "evk") is False else \
                            ("true", "None", "[1, 2]", "plain-text")[tape.draw(4, "evs")]
                        name = "DASK_" + a + ("__" + b if b else "")
                        if any(n == name or n.startswith(name + "__") or name.startswith(n + "__")
                               for n in env):
                            continue
                        env[name] = raw
                        exp.append((a.lower() + ("." + b.lower() if b else ""), raw))
                    view0 = copy.deepcopy(verif_view(conf))
                    got = dc.collect_env(env)
                    hist.append(["collect_env", env])
                    lit = {"true": True, "None": None, "[1, 2]": [1, 2], "plain-text": "plain-text"}
                    for key, raw in exp:
                        want = lit[raw] if raw in lit else int(raw)
                        for spelling in (key, key.replace("_", "-")):
                            g = dc.get(spelling, default=cm.MISSING, config=got)
                            if g is cm.MISSING or g != want or type(g) is not type(want):
                                out.violate("collect_env_mismatch",
                                            f"collect_env({env}) -> {got}; get({spelling!r}) = {g!r}, "
                                            f"expected {want!r}")
                                break
                    if verif_view(conf) != view0:
                        out.violate("collect_env_touched_config", f"history {hist}")
                elif op == "serialize":
                    t = gen_tree(tape)
                    # string values over an alphabet that reaches every base64 digit (URL-safe '-' and '_'
                    # come from '>', '?' and '~' at particular offsets), unicode included
                    for j in range(tape.draw(3, "nstr")):
                        t[f"str{j}"] = "".join(SER_ALPHA[tape.draw(len(SER_ALPHA), "ch")]
                                               for _ in range(tape.draw(9, "slen")))
                        out.probe("serialize_string_value")
                    hist.append(["serialize", t])
                    try:
                        back = dc.deserialize(dc.serialize(t))
                    except Exception as e:  # noqa: BLE001
                        out.violate("serialize_roundtrip", f"{t}: {type(e).__name__} at {exc_site(e)}: {e}")
                    else:
                        if back != t:
                            out.violate("serialize_roundtrip", f"{t} -> {back}")
            abstract.add((len(stack), len(verif_view(conf))))
        # unwind the remaining contexts
        while stack and out.status != "violation":
            before, ctx = stack.pop()
            ctx.__exit__(None, None, None)
            hist.append(["exit"])
            now = verif_view(conf)
            if now != before:
                out.violate("exit_not_restored",
                            f"after exit: config={now} expected={before} (history {hist})")
        if out.status != "violation" and verif_view(conf) != init:
            out.violate("exit_not_restored", f"after unwinding: {verif_view(conf)} != initial {init}")
    finally:
        if use_global:
            dc.config.clear()
            dc.config.update(saved_global)
    out.decoded = {"global": bool(use_global), "initial": init, "history": hist}
    out.wdigest = dg((use_global, init))
    out.digest = dg(hist)
    out.abstract = tuple(abstract)
    out.nontrivial = len(hist) >= 3 and (depth_seen >= 2 or nfail >= 1)
    out.policy = "global" if use_global else "private"
    if nfail:
        out.faults["set_call_fails_part_way"] = nfail
        out.klass = "faulted"
    return out


def _first_fail_index(before, items):
    cur = copy.deepcopy(before)
    for i, (k, v) in enumerate(items):
        try:
            cm.model_assign(cur, k.split("."), copy.deepcopy(v))
        except cm.SetFails:
            return i
    return -1


def _type_conflict(a, b):
    for k, v in b.items():
        ka = cm.canon(k, a)
        if ka in a:
            if isinstance(a[ka], dict) != isinstance(v, dict):
                return True
            if isinstance(v, dict) and _type_conflict(a[ka], v):
                return True
    return False

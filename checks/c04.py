"""C04 — a failing task surfaces its exception and the scheduler terminates cleanly.

fault_enumeration: for every generated graph, every needed task body in turn is
made to raise (exception kind, entry point and completion schedule from the
tape); further run classes inject two failing tasks, a crashed worker, a
refused submit and an interrupt of the waiting client."""
from __future__ import annotations

from checks import c01
from sim import graphgen as gg
from sim import schedrun as sr
from sim import taskfns
from sim.core import Outcome

META = {
    "level": "fault_enumeration",
    "budget": {"quick": {"seconds": 60, "runs": 2500},
               "thorough": {"seconds": 1200, "runs": 10**9}},
    "rule": ("one evaluation = one generated DAG x configuration; within it EVERY needed task body "
             "(cap 14) is made to raise in turn, each under its own simulated completion schedule "
             "(run class task_raises); other classes: two bodies raise, worker crash, submit refused, "
             "client interrupted. distinct = distinct (workload, event sequence of the last execution); "
             "non-trivial = >=3 needed keys and a fault actually fired while >=1 other job was open "
             "or had finished"),
    "abstract_measure": "distinct (|waiting|,|ready|,|running|,|cache|) tuples",
    "gates": {"quick": {"task_raises": 5000, "worker_crash": 100, "interrupt": 100,
                        "submit_fails": 100, "dependents_present": 1000,
                        "rerun_exceptions_locally": 1000},
              "thorough": {"task_raises": 5000}},
    "anchors": ["dask/local.py", "dask/threaded.py", "dask/multiprocessing.py"],
    "real": c01.META["real"] + ["dask.multiprocessing.pack_exception/remote_exception/reraise",
                                "dask.threaded.pack_exception", "dask.local.execute_task exception path"],
    "stubbed": c01.META["stubbed"],
    "assumptions": ["tasks are atomic under E1", "exception kinds sampled per fault site, not enumerated",
                    "tblib absent: the RemoteException path of dask.multiprocessing is the one exercised"],
}

KINDS = taskfns.EXC_KINDS


def _zdumps(obj, **kw):
    import zlib

    import cloudpickle

    return zlib.compress(cloudpickle.dumps(obj))


def _zloads(data):
    import zlib

    import cloudpickle

    return cloudpickle.loads(zlib.decompress(data))


def tier_cfg(tier):
    return {"max_nodes": 10 if tier == "quick" else 22, "site_cap": 14 if tier == "quick" else 30}


def dependents_of(keys, deps):
    rev = {}
    for k, ds in deps.items():
        for d in ds:
            rev.setdefault(d, set()).add(k)
    out, stack = set(), list(keys)
    while stack:
        k = stack.pop()
        for r in rev.get(k, ()):
            if r not in out:
                out.add(r)
                stack.append(r)
    return out


def check_failure(out, obs, spec, deps, needed, fail, rcfg, klass):
    """Oracle for runs in which task bodies were armed to raise."""
    entry = rcfg["entry"]
    fam = "mp" if entry.startswith("mp") else entry
    log = obs.log
    raised = [e for e in log if e[0] == "raise"]
    node_of = {}
    for node in spec["nodes"]:
        for tg in gg.node_call_tags(node):
            node_of[tg] = gg.K(node["key"])
    exc = obs.exc
    if exc is not None and sr.is_sim_abort(exc):
        return out.violate("hang", f"{type(exc).__name__}: {exc}", fault_sig=f"{fam}:{klass}")
    if not raised:
        # the armed body never ran (cannot happen for needed bodies unless dask skipped it)
        return out.violate("armed_body_not_executed", f"armed {sorted(fail)!r} never ran",
                           fault_sig=f"{fam}:{klass}")
    if exc is None:
        return out.violate("failure_swallowed",
                           f"task {raised[0][1]!r} raised {raised[0][2]} but the call returned "
                           f"{obs.value!r}", fault_sig=f"{fam}:{raised[0][2]}")
    # which raised body does the surfaced exception belong to?
    cands = []
    for _, tg, kind in raised:
        msg = f"boom-{tg[0]}-{tg[1]}"
        if msg in str(exc):
            cands.append((tg, kind))
    if not cands:
        kinds = sorted({k for _, _, k in raised})
        if fam == "mp" and "Unpicklable" in kinds and "cannot pickle" in str(exc):
            kinds = ["Unpicklable"]  # the substituted pickling error of that one body
        return out.violate("exc_type_mismatch",
                           f"raised {type(exc).__name__}({str(exc)[:200]!r}) carries none of the "
                           f"original messages; injected {kinds}",
                           fault_sig=f"{fam}:{'+'.join(kinds)}", exc_type=type(exc).__name__)
    tg, kind = cands[0]
    typ = taskfns.EXC_TYPES[kind]
    if fam == "mp":
        ok = isinstance(exc, typ)
    else:
        ok = type(exc) is typ
    if not ok:
        return out.violate("exc_type_mismatch",
                           f"injected {kind} in {tg!r}, call raised {type(exc).__mro__[:3]!r}",
                           fault_sig=f"{fam}:{kind}", exc_type=type(exc).__name__)
    if kind == "CustomError" and getattr(exc, "extra", None) != 42:
        return out.violate("exc_state_lost", "CustomError.extra not preserved",
                           fault_sig=f"{fam}:{kind}")
    # no dependent of a failed task may have started
    failed_keys = {node_of[t] for _, t, _ in raised}
    bad_keys = dependents_of(failed_keys, deps) | failed_keys
    # a body "depends on the failed task" iff its own argument subtree references a
    # failed key or a dependent of one (fusion may legally run an unrelated nested
    # body of the same node before the failing one)
    tag_refs = {}
    for node in spec["nodes"]:
        tag_refs.update(gg.node_call_refs(node))
    for e in log:
        if e[0] == "start" and tag_refs.get(e[1], set()) & bad_keys:
            return out.violate("dependent_executed",
                               f"body {e[1]!r} ran although it depends on failed {failed_keys!r}",
                               fault_sig=f"{fam}:{kind}")
    return check_finish(out, obs, True, f"{fam}:{kind}")


def check_finish(out, obs, expect_failed, sig):
    fins = [e for e in obs.log if e[0] == "cb" and e[2] == "finish"]
    if len(fins) != 1:
        return out.violate("finish_count", f"finish callback ran {len(fins)} times", fault_sig=sig)
    if fins[0][3] != expect_failed:
        return out.violate("finish_flag", f"finish(failed={fins[0][3]}) expected {expect_failed}",
                           fault_sig=sig)
    return out


def run_one_threads(tape, cfg, out):
    """E2: concurrent threaded.get clients; one (or two) of them has a failing body.
    The failing client must satisfy the failure oracle; its neighbours (sharing the
    pool) must still return their right values."""
    from sim import schedthreads as st

    spec, tcfg, clients, reqs = c01.gen_threads_workload(tape, cfg)
    vals, calls, deps = gg.evaluate(spec)
    needs = [gg.needed(spec, c["request"], deps) for c in clients]
    armed = []
    with tape.span("fault"):
        for i, c in enumerate(clients):
            if i == 0 or tape.chance(1, 3, "also"):
                sites = [t for n in spec["nodes"] if gg.K(n["key"]) in needs[i]
                         for t in gg.node_call_tags(n)]
                if sites:
                    c["fail"] = {sites[tape.draw(len(sites), "site")]:
                                 KINDS[tape.draw(len(KINDS), "kind")]}
                    armed.append(i)
    obs_list, sched = st.run_threads(tape, spec, clients, tcfg)
    c01.threads_outcome(out, obs_list, sched, spec, reqs, tcfg, [len(n) for n in needs])
    out.klass = "threads_task_raises"
    out.decoded["faults"] = [[i, [[list(t), k] for t, k in (c["fail"] or {}).items()]]
                             for i, c in enumerate(clients)]
    rcfg = {"entry": "threaded"}
    for i, (obs, c) in enumerate(zip(obs_list, clients)):
        if c["fail"]:
            nraise = sum(1 for e in obs.log if e[0] == "raise")
            out.faults["task_raises"] = out.faults.get("task_raises", 0) + nraise
            check_failure(out, obs, spec, deps, needs[i], c["fail"], rcfg, "task_raises")
        else:
            expected = gg.expected_result(c["request"], vals)
            if obs.exc is not None:
                d = sr.describe_exc(obs.exc)
                out.violate("neighbour_failed", f"client {i} had no fault but raised {d['exc_type']} at "
                                                f"{d['site']}: {d['msg']}", fault_sig="threaded:neighbour")
            elif taskfns.norm(obs.value) != taskfns.norm(expected):
                out.violate("wrong_value_after_fault", f"client {i}: got {obs.value!r} expected "
                                                       f"{expected!r}", fault_sig="threaded:neighbour")
            else:
                check_finish(out, obs, False, "threaded:neighbour")
        if out.status == "violation":
            out.details["entry"] = "threads"
            out.message = f"client {i}: " + out.message
            break
    out.nontrivial = out.nontrivial and bool(out.faults)
    return out


def run_one(tape, cfg):
    out = Outcome()
    if c01.use_threads(tape, cfg):
        return run_one_threads(tape, cfg, out)
    spec, req_json, request, rcfg = c01.gen_workload(tape, cfg)
    vals, calls, deps = gg.evaluate(spec)
    needed = gg.needed(spec, request, deps)
    expected = gg.expected_result(request, vals)
    sites = []
    for node in spec["nodes"]:
        if gg.K(node["key"]) in needed:
            sites.extend(gg.node_call_tags(node))
    with tape.span("klass"):
        klass = tape.weighted([(6, "task_raises"), (2, "two_raise"), (1, "worker_crash"),
                               (1, "submit_fails"), (1, "interrupt")], "klass")
    out.klass = klass
    out.policy = rcfg["policy"]
    out.wdigest = sr.workload_digest(spec, req_json, rcfg)
    out.decoded = sr.decoded(spec, req_json, rcfg, fault_class=klass)
    if not sites:
        out.digest = "0"
        return out
    obs = None
    if klass in ("task_raises", "two_raise"):
        todo = sites[: cfg["site_cap"]]
        if klass == "two_raise":
            todo = todo[:1] if len(todo) < 2 else [todo[tape.draw(len(todo), "site")]]
        plan = []
        for tg in todo:
            with tape.span("fault"):
                kind = KINDS[tape.draw(len(KINDS), "kind")]
                fail = {tg: kind}
                if klass == "two_raise" and len(sites) >= 2:
                    other = sites[tape.draw(len(sites), "site2")]
                    fail[other] = KINDS[tape.draw(len(KINDS), "kind2")]
                plan.append(fail)
        out.decoded["faults"] = [[[list(t), k] for t, k in f.items()] for f in plan]
        for fail in plan:
            with tape.span("sched"):
                # debugging aid of the schedulers: the failed task is re-executed in the calling
                # thread, where it raises again (the statement still applies to what the call raises)
                rerun = tape.chance(1, 6, "rerun_locally")
                xkw = {"rerun_exceptions_locally": True} if rerun else {}
                # the multiprocessing scheduler with a user codec whose wire format is not a bare pickle
                codec = rcfg["entry"].startswith("mp") and tape.chance(1, 3, "codec")
                if codec:
                    xkw.update(func_dumps=_zdumps, func_loads=_zloads)
                obs = sr.run_graph(tape, spec, request, rcfg, fail=fail, extra_kw=xkw or None)
            if rerun:
                out.probe("rerun_exceptions_locally")
            if codec:
                out.probe("mp_custom_codec")
            out.info["executions"] = out.info.get("executions", 0) + 1
            nraise = sum(1 for e in obs.log if e[0] == "raise")
            out.faults["task_raises"] = out.faults.get("task_raises", 0) + nraise
            if dependents_of({node_of_tag(spec, t) for t in fail}, deps) & needed:
                out.probe("dependents_present")
            check_failure(out, obs, spec, deps, needed, fail, rcfg, klass)
            if out.status == "violation":
                out.details["entry"] = rcfg["entry"]
                out.decoded["failing_fault"] = [[list(t), k] for t, k in fail.items()]
                break
    else:
        faults = {}
        with tape.span("fault"):
            if klass == "worker_crash":
                faults["crash"] = {"job": tape.draw(max(1, len(sites)), "job"),
                                   "when": "before" if tape.chance(1, 2, "when") is False else "after"}
            elif klass == "submit_fails":
                faults["submit_fails"] = 1 + tape.draw(max(1, len(sites)), "nth")
            else:
                faults["interrupt"] = 1 + tape.draw(max(1, len(sites)), "nth")
        out.decoded["faults"] = faults
        obs = sr.run_graph(tape, spec, request, rcfg, faults=faults)
        out.info["executions"] = 1
        for k, v in obs.sim.fired.items():
            out.faults[k] = out.faults.get(k, 0) + v
        fam = "mp" if rcfg["entry"].startswith("mp") else rcfg["entry"]
        sig = f"{fam}:{klass}"
        exc = obs.exc
        fired = bool(obs.sim.fired)
        if exc is not None and sr.is_sim_abort(exc):
            out.violate("hang", f"{type(exc).__name__}: {exc}", fault_sig=sig)
        elif exc is None:
            if taskfns.norm(obs.value) != taskfns.norm(expected):
                out.violate("wrong_value_after_fault", f"got {obs.value!r} expected {expected!r}",
                            fault_sig=sig)
            else:
                check_finish(out, obs, False, sig)
        else:
            want = {"worker_crash": "BrokenProcessPool", "submit_fails": "RuntimeError",
                    "interrupt": "KeyboardInterrupt"}[klass]
            if not fired or type(exc).__name__ != want:
                d = sr.describe_exc(exc)
                out.violate("unexpected_exception_under_fault",
                            f"fault {klass} fired={fired}; call raised {d['exc_type']} at "
                            f"{d['site']}: {d['msg']}", fault_sig=sig, exc_type=d["exc_type"])
            else:
                check_finish(out, obs, True, sig)
        if out.status == "violation":
            out.details["entry"] = rcfg["entry"]
    sim = obs.sim
    out.digest = sim.digest()
    out.abstract = tuple(obs.rec.abstract)
    out.sim_time = float(sim.events)
    fired_any = bool(out.faults)
    out.nontrivial = len(needed) >= 3 and fired_any and len(sim.jobs) >= 2
    return out


def node_of_tag(spec, tg):
    for node in spec["nodes"]:
        if gg.keyrepr(node["key"]) == tg[0]:
            return gg.K(node["key"])
    return None

"""C01 — local schedulers compute exactly the values the task graph denotes."""
from __future__ import annotations

from sim import graphgen as gg
from sim import schedrun as sr
from sim import taskfns
from sim.core import Outcome

META = {
    "level": "exploration",
    "budget": {"quick": {"seconds": 45, "runs": 6000},
               "thorough": {"seconds": 900, "runs": 10**9}},
    "rule": ("one evaluation = one tape-generated DAG (tasks, data, aliases, nested "
             "list/tuple/dict args, legacy tuples, Task objects) x request nesting x entry point "
             "(get_async/threaded.get/multiprocessing.get with real cloudpickle boundary/"
             "get_apply_async/sync) x num_workers 1..8 x chunksize {default,1,2,3,6,-1} x "
             "simulated completion schedule; distinct = distinct (workload digest, event-sequence "
             "digest); non-trivial = >=3 needed keys and >=2 jobs open at once"),
    "abstract_measure": "distinct (|waiting|,|ready|,|running|,|cache|) tuples of the real scheduler state",
    "gates": {"quick": {"multi_open": 100, "chunk_minus1": 20, "mp_boundary": 50},
              "thorough": {"multi_open": 100}},
    "anchors": ["dask/local.py", "dask/threaded.py", "dask/multiprocessing.py", "dask/core.py",
                "dask/_task_spec.py", "dask/order.py"],
    "real": ["dask.local.get_async/start_state_from_dask/fire_tasks/finish_task/nested_get",
             "dask.threaded.get", "dask.multiprocessing.get (cull, fuse, cloudpickle dumps/loads, "
             "pack_exception)", "dask.local.get_apply_async", "dask.order.order",
             "dask._task_spec (convert_legacy_graph, Task, Alias, DataNode, containers)",
             "queue.Queue + concurrent.futures.Future done-callbacks"],
    "stubbed": ["OS thread pool / process pool -> SimExecutor (single-threaded discrete-event pool)",
                "dask.local.queue_get -> sim_queue_get"],
    "assumptions": ["tasks are atomic under engine E1 (no pre-emption inside a task)",
                    "seeded sampling, not exhaustive enumeration"],
}


def tier_cfg(tier):
    return {"max_nodes": 12 if tier == "quick" else 28}


def gen_workload(tape, cfg, entries=sr.ENTRIES):
    spec = gg.gen_graph(tape, max_nodes=cfg["max_nodes"])
    keyset = {gg.K(n["key"]) for n in spec["nodes"]}
    req_json = gg.gen_request(tape, spec)
    request = gg.req_keys(req_json, keyset)
    rcfg = sr.gen_cfg(tape, entries)
    return spec, req_json, request, rcfg


def base_outcome(out, obs, spec, req_json, rcfg, needed):
    sim = obs.sim
    out.digest = sim.digest()
    out.wdigest = sr.workload_digest(spec, req_json, rcfg)
    out.policy = rcfg["policy"]
    out.decoded = sr.decoded(spec, req_json, rcfg)
    out.abstract = tuple(obs.rec.abstract)
    out.nontrivial = len(needed) >= 3 and sim.max_open >= 2
    if sim.max_open >= 2:
        out.probe("multi_open")
    if rcfg["chunksize"] == -1:
        out.probe("chunk_minus1")
    if rcfg["entry"] in ("mp", "mp_noopt"):
        out.probe("mp_boundary")
    for k, v in obs.rec.probes.items():
        out.probe(k, v)
    out.sim_time = float(sim.events)


def run_one(tape, cfg):
    out = Outcome()
    spec, req_json, request, rcfg = gen_workload(tape, cfg)
    vals, calls, deps = gg.evaluate(spec)
    needed = gg.needed(spec, request, deps)
    expected = gg.expected_result(request, vals)
    obs = sr.run_graph(tape, spec, request, rcfg)
    base_outcome(out, obs, spec, req_json, rcfg, needed)
    if obs.exc is not None:
        d = sr.describe_exc(obs.exc)
        if sr.is_sim_abort(obs.exc):
            return out.violate("no_termination", f"{d['exc_type']}: {d['msg']}", **d,
                               entry=rcfg["entry"], chunksize=rcfg["chunksize"])
        return out.violate("get_raised", f"{d['exc_type']} at {d['site']}: {d['msg']}", **d,
                           entry=rcfg["entry"], chunksize=rcfg["chunksize"])
    if taskfns.norm(obs.value) != taskfns.norm(expected):
        return out.violate("wrong_value",
                           f"entry={rcfg['entry']} got {obs.value!r} expected {expected!r}",
                           entry=rcfg["entry"])
    # cross-check of the oracle itself: the synchronous scheduler on the same graph
    if rcfg["entry"] != "sync" and tape.chance(1, 4, "xcheck"):
        import dask

        taskfns.reset()
        v2 = dask.get(gg.build(spec), request)
        if taskfns.norm(v2) != taskfns.norm(expected):
            return out.violate("wrong_value", f"dask.get got {v2!r} expected {expected!r}",
                               entry="sync")
    return out

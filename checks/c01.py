"""C01 — local schedulers compute exactly the values the task graph denotes."""
from __future__ import annotations

from sim import graphgen as gg
from sim import schedrun as sr
from sim import taskfns
from sim.core import Outcome, dg

META = {
    "level": "exploration",
    "budget": {"quick": {"seconds": 45, "runs": 6000},
               "thorough": {"seconds": 900, "runs": 10**9}},
    "rule": ("one evaluation = one tape-generated DAG (tasks, data, aliases, nested "
             "list/tuple/dict args, legacy tuples, Task objects) x request nesting x entry point "
             "(get_async/threaded.get/multiprocessing.get with real cloudpickle boundary/"
             "get_apply_async/sync) x num_workers 1..8 x chunksize {default,1,2,3,6,-1} x "
             "simulated completion schedule; distinct = distinct (workload digest, event-sequence "
             "digest); non-trivial = >=3 needed keys and >=2 jobs open at once"),
    "abstract_measure": "distinct (|waiting|,|ready|,|running|,|cache|) tuples of the real scheduler state",
    "gates": {"quick": {"multi_open": 100, "chunk_minus1": 20, "mp_boundary": 50},
              "thorough": {"multi_open": 100}},
    "anchors": ["dask/local.py", "dask/threaded.py", "dask/multiprocessing.py", "dask/core.py",
                "dask/_task_spec.py", "dask/order.py"],
    "real": ["dask.local.get_async/start_state_from_dask/fire_tasks/finish_task/nested_get",
             "dask.threaded.get", "dask.multiprocessing.get (cull, fuse, cloudpickle dumps/loads, "
             "pack_exception)", "dask.local.get_apply_async", "dask.order.order",
             "dask._task_spec (convert_legacy_graph, Task, Alias, DataNode, containers)",
             "queue.Queue + concurrent.futures.Future done-callbacks"],
    "stubbed": ["OS thread pool / process pool -> SimExecutor (single-threaded discrete-event pool)",
                "dask.local.queue_get -> sim_queue_get"],
    "assumptions": ["tasks are atomic under engine E1 (no pre-emption inside a task)",
                    "seeded sampling, not exhaustive enumeration"],
}


def tier_cfg(tier):
    return {"max_nodes": 12 if tier == "quick" else 28}


def gen_workload(tape, cfg, entries=sr.ENTRIES):
    if tape.chance(1, 8, "forest"):
        # a family built to saturate 3 workers with batches of 2 (see gen_graph_forest)
        spec = gg.gen_graph_forest(tape)
        rcfg = sr.gen_cfg(tape, entries)
        rcfg["num_workers"], rcfg["chunksize"] = 3, 2
        req_json = spec["nodes"][-1]["key"]
        return spec, req_json, gg.req_keys(req_json, {gg.K(n["key"]) for n in spec["nodes"]}), rcfg
    wide = tape.chance(1, 6, "wide")
    if wide:
        # many independent tasks, 3-5 workers, batches of 2 or 3: rounds in which tasks are ready
        # while every worker is taken by batches of different sizes
        if tape.chance(1, 2, "layered"):
            spec = gg.gen_graph_layered(tape, max_nodes=cfg["max_nodes"] + 6)
        else:
            spec = gg.gen_graph_wide(tape, max_leaves=cfg["max_nodes"] + 2)
    else:
        spec = gg.gen_graph(tape, max_nodes=cfg["max_nodes"])
    keyset = {gg.K(n["key"]) for n in spec["nodes"]}
    req_json = gg.gen_request(tape, spec)
    request = gg.req_keys(req_json, keyset)
    rcfg = sr.gen_cfg(tape, entries)
    if wide:
        with tape.span("widecfg"):
            rcfg["num_workers"] = 3 + tape.draw(3, "wnw")
            rcfg["chunksize"] = 2 + tape.draw(2, "wcs")
    return spec, req_json, request, rcfg


def base_outcome(out, obs, spec, req_json, rcfg, needed):
    sim = obs.sim
    out.digest = sim.digest()
    out.wdigest = sr.workload_digest(spec, req_json, rcfg)
    out.policy = rcfg["policy"]
    out.decoded = sr.decoded(spec, req_json, rcfg)
    out.abstract = tuple(obs.rec.abstract)
    out.nontrivial = len(needed) >= 3 and sim.max_open >= 2
    if sim.max_open >= 2:
        out.probe("multi_open")
    if rcfg["chunksize"] == -1:
        out.probe("chunk_minus1")
    if rcfg["entry"] in ("mp", "mp_noopt"):
        out.probe("mp_boundary")
    for k, v in obs.rec.probes.items():
        out.probe(k, v)
    out.sim_time = float(sim.events)


def use_threads(tape, cfg):
    """First draw of every scheduler-check run: engine E2 (1 in `e2_den`) or E1."""
    den = cfg.get("e2_den", 12)
    return tape.draw(den, "engine") == den - 1


def gen_threads_workload(tape, cfg, with_fail=False):
    from sim import schedthreads as st

    spec = gg.gen_graph(tape, max_nodes=min(cfg["max_nodes"], 10), min_nodes=2)
    keyset = {gg.K(n["key"]) for n in spec["nodes"]}
    tcfg = st.gen_threads_cfg(tape)
    clients, reqs = [], []
    for _ in range(tcfg["nclients"]):
        rj = gg.gen_request(tape, spec)
        reqs.append(rj)
        clients.append({"request": gg.req_keys(rj, keyset), "fail": None})
    return spec, tcfg, clients, reqs


def threads_outcome(out, obs_list, sched, spec, reqs, tcfg, needed_sizes):
    out.digest = sched.digest()
    out.wdigest = sr.workload_digest(spec, reqs, {"entry": "threads:" + tcfg["pool_mode"],
                                                  "num_workers": tcfg["num_workers"],
                                                  "chunksize": tcfg["chunksize"]})
    out.policy = "E2:" + tcfg["policy"]
    out.klass = "threads"
    out.decoded = {"graph": spec, "requests": reqs, "threads_cfg": tcfg, "engine": "E2"}
    ab = set()
    for o in obs_list:
        ab.update(o.rec.abstract)
    out.abstract = tuple(ab)
    out.sim_time = float(sched.steps)
    par = sched.probes.get("parallel_items", 0)
    out.nontrivial = max(needed_sizes or [0]) >= 3 and par > 0
    out.probe("e2_runs")
    if par:
        out.probe("e2_parallel_bodies")
    if tcfg["nclients"] >= 2:
        out.probe("e2_concurrent_clients")
    if par:
        out.probe("multi_open")


def run_one_threads(tape, cfg, out):
    from sim import schedthreads as st

    spec, tcfg, clients, reqs = gen_threads_workload(tape, cfg)
    vals, calls, deps = gg.evaluate(spec)
    obs_list, sched = st.run_threads(tape, spec, clients, tcfg)
    sizes = [len(gg.needed(spec, c["request"], deps)) for c in clients]
    threads_outcome(out, obs_list, sched, spec, reqs, tcfg, sizes)
    for i, (obs, c) in enumerate(zip(obs_list, clients)):
        expected = gg.expected_result(c["request"], vals)
        if obs.exc is not None:
            d = sr.describe_exc(obs.exc)
            oracle = "no_termination" if sr.is_sim_abort(obs.exc) else "get_raised"
            return out.violate(oracle, f"client {i}: {d['exc_type']} at {d['site']}: {d['msg']}", **d,
                               entry="threads", chunksize=tcfg["chunksize"])
        if taskfns.norm(obs.value) != taskfns.norm(expected):
            return out.violate("wrong_value", f"client {i} (threaded.get, {tcfg}) got {obs.value!r} "
                                              f"expected {expected!r}", entry="threads")
    return out


def _inc(x):
    return x + 1


def _nested_get(j):
    """A task that itself calls the threaded scheduler with default arguments."""
    import dask.threaded as dt

    return dt.get({("in", j, 0): (_inc, j), ("in", j, 1): (_inc, ("in", j, 0))}, ("in", j, 1))


def run_nested(tape, cfg, out):
    """E2: tasks that call dask.threaded.get themselves (nested scheduler calls), with the default
    pool no larger than the number of such tasks, so that every pool thread can be blocked in an
    outer task while the inner graphs still have to run.  threaded.get's own pool selection
    (default_pool / per-thread pools / main_thread test) is the real code; only the pool class and
    CPU_COUNT are replaced."""
    import threading

    import dask.threaded as dt
    from sim.simthreads import SimThreadPool, SimThreads

    with tape.span("nested"):
        nouter = 2 + tape.draw(3, "nouter")
        cpu = 1 + tape.draw(nouter, "cpu")
        policy = tape.choice(SimThreads.POLICIES, "policy")
    wl = {"nested_get": True, "outer_tasks": nouter, "default_pool_size": cpu, "policy": policy}
    out.decoded = wl
    out.wdigest = dg(wl)
    out.policy = policy
    out.klass = "nested"
    out.probe("nested_scheduler_calls")
    sched = SimThreads(tape, policy=policy, step_cap=40000)
    saved = (dt.ContextAwareThreadPoolExecutor, dt.CPU_COUNT, dt.default_pool, dt.main_thread)
    saved_pools = dict(dt.pools)
    dt.pools.clear()
    dt.ContextAwareThreadPoolExecutor = lambda nw=None: SimThreadPool(sched, nw or cpu)
    dt.CPU_COUNT = cpu
    dt.default_pool = None
    box = {}
    outer = {("o", j): (_nested_get, j) for j in range(nouter)}
    outer["sum"] = (sum, [("o", j) for j in range(nouter)])
    try:
        with sched:
            def client():
                dt.main_thread = threading.current_thread()     # the caller of the outer get
                box["v"] = dt.get(outer, "sum")

            st = sched.spawn(client, "client")
            res = sched.run()
        out.digest = sched.digest()
        out.sim_time = float(sched.steps)
        out.nontrivial = sched.probes.get("parallel_items", 0) > 0
        if st.exc is not None:
            return out.violate("get_raised", f"nested threaded.get: {type(st.exc).__name__}: {st.exc}",
                               entry="threads-nested")
        if res != "ok":
            return out.violate("no_termination", f"nested threaded.get with {nouter} outer tasks and a default "
                                                 f"pool of {cpu}: {res} {sched.deadlock}", entry="threads-nested")
        want = sum(j + 2 for j in range(nouter))
        if box.get("v") != want:
            return out.violate("wrong_value", f"nested threaded.get returned {box.get('v')!r}, expected {want}",
                               entry="threads-nested")
    finally:
        dt.ContextAwareThreadPoolExecutor, dt.CPU_COUNT, dt.default_pool, dt.main_thread = saved
        dt.pools.clear()
        dt.pools.update(saved_pools)
    return out


def run_one(tape, cfg):
    out = Outcome()
    if use_threads(tape, cfg):
        if tape.chance(1, 5, "nested"):
            return run_nested(tape, cfg, out)
        return run_one_threads(tape, cfg, out)
    spec, req_json, request, rcfg = gen_workload(tape, cfg)
    vals, calls, deps = gg.evaluate(spec)
    needed = gg.needed(spec, request, deps)
    expected = gg.expected_result(request, vals)
    obs = sr.run_graph(tape, spec, request, rcfg)
    base_outcome(out, obs, spec, req_json, rcfg, needed)
    if obs.exc is not None:
        d = sr.describe_exc(obs.exc)
        if sr.is_sim_abort(obs.exc):
            return out.violate("no_termination", f"{d['exc_type']}: {d['msg']}", **d,
                               entry=rcfg["entry"], chunksize=rcfg["chunksize"])
        return out.violate("get_raised", f"{d['exc_type']} at {d['site']}: {d['msg']}", **d,
                           entry=rcfg["entry"], chunksize=rcfg["chunksize"])
    if taskfns.norm(obs.value) != taskfns.norm(expected):
        return out.violate("wrong_value",
                           f"entry={rcfg['entry']} got {obs.value!r} expected {expected!r}",
                           entry=rcfg["entry"])
    # cross-check of the oracle itself: the synchronous scheduler on the same graph
    if rcfg["entry"] != "sync" and tape.chance(1, 4, "xcheck"):
        import dask

        taskfns.reset()
        v2 = dask.get(gg.build(spec), request)
        if taskfns.norm(v2) != taskfns.norm(expected):
            return out.violate("wrong_value", f"dask.get got {v2!r} expected {expected!r}",
                               entry="sync")
    return out

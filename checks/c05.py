"""C05 — scheduler callbacks fire in protocol order and contexts nest like a stack.

A tape-generated history of enter/exit/register/unregister/get operations over
four callback objects is executed against the real dask.callbacks machinery and
a reference model (active = registered ∪ open contexts); every get runs under a
simulated completion schedule, optionally with a failing task, a raising
pretask/posttask callback or an interrupted client."""
from __future__ import annotations

from checks import c01
from sim import graphgen as gg
from sim import schedrun as sr
from sim import taskfns
from sim.core import Outcome, dg

OWNS_GLOBALS = True

META = {
    "level": "exploration",
    "budget": {"quick": {"seconds": 60, "runs": 3000},
               "thorough": {"seconds": 900, "runs": 10**9}},
    "rule": ("one evaluation = one history of 2..12 (thorough 30) operations {enter with-cb / "
             "add_callbacks(subset), exit innermost, register, unregister, get, get with failing task, "
             "get with a raising start/start_state/pretask/posttask hook, get interrupted} over 2 Callback objects, a raw "
             "5-tuple and a raising Callback; distinct = distinct (history digest, event digest of the gets); "
             "non-trivial = >=3 operations including >=1 get and >=1 nested or repeated callback"),
    "abstract_measure": "distinct (registered set, open-context stack) model states",
    "gates": {"quick": {"same_cb_nested": 300, "registered_then_entered": 300, "get_failed": 300,
                        "cb_raised": 100, "interrupt": 50, "finished_after_start_raise": 30},
              "thorough": {"same_cb_nested": 300}},
    "anchors": ["dask/callbacks.py", "dask/local.py"],
    "real": ["dask.callbacks (Callback, add_callbacks, local_callbacks, unpack_callbacks)",
             "dask.local.get_async callback protocol", "dask.threaded.get", "dask.multiprocessing.get"],
    "stubbed": c01.META["stubbed"],
    "assumptions": ["no exceptions are injected into finish hooks (the statement is silent on them); when a start "
                    "hook raises, only the callbacks whose own start hook had already returned are required to be "
                    "finished (what get_async's started_cbs list promises)",
                    "register/unregister are only generated while the callback is not held by an open context "
                    "(the statement speaks of an *earlier* register())"],
}

NAMES = ("A", "B", "T", "X")
HOOKS = ("start", "start_state", "pretask", "posttask")


def tier_cfg(tier):
    return {"max_ops": 12 if tier == "quick" else 30, "max_nodes": 6}


class LogCb:
    """Five recording hooks; used as Callback(...) arguments or as a raw tuple."""

    def __init__(self, name, log):
        self.name = name
        self.log = log
        self.raise_at = None  # ("start"|"start_state"|"pretask"|"posttask", n)
        self.count = dict.fromkeys(HOOKS, 0)

    def start(self, dsk):
        self.log.append(("cb", self.name, "start"))
        self._maybe_raise("start")

    def start_state(self, dsk, state):
        self.log.append(("cb", self.name, "start_state"))
        self._maybe_raise("start_state")

    def pretask(self, key, dsk, state):
        self.log.append(("cb", self.name, "pretask", key))
        self._maybe_raise("pretask")

    def posttask(self, key, result, dsk, state, worker_id):
        self.log.append(("cb", self.name, "posttask", key))
        self._maybe_raise("posttask")

    def finish(self, dsk, state, failed):
        self.log.append(("cb", self.name, "finish", bool(failed)))

    def _maybe_raise(self, which):
        self.count[which] += 1
        if self.raise_at is not None and self.raise_at == (which, self.count[which]):
            self.log.append(("cbraise", self.name, which))
            raise taskfns.CustomError(f"callback-{self.name}-{which}")

    def tuple(self):
        return (self.start, self.start_state, self.pretask, self.posttask, self.finish)


def check_protocol(out, events, name, active, failed, soft, start_raiser=None):
    """events: this callback's entries during one get."""
    evs = [e for e in events if e[0] == "cb" and e[1] == name]
    if not active:
        if evs:
            return out.violate("inactive_callback_fired", f"callback {name} not active but got {evs[:3]!r}")
        return None
    kinds = [e[2] for e in evs]
    if start_raiser is not None:
        # A start hook raised.  Active callbacks are started in set order, so which ones ran before
        # the raiser is read off the log: each of those must still get its one finish(failed=True);
        # the raiser itself and the callbacks never started are not constrained.
        if name == start_raiser or not evs:
            return None
        if kinds.count("start") != 1 or kinds[0] != "start":
            return out.violate("start_protocol", f"callback {name}: events {kinds!r}")
        if kinds.count("finish") != 1 or kinds[-1] != "finish":
            return out.violate("finish_protocol",
                               f"callback {name} was started before {start_raiser}'s start hook raised "
                               f"but got {kinds.count('finish')} finish calls (events {kinds!r})")
        if evs[-1][3] is not True:
            return out.violate("finish_flag", f"callback {name}: finish(failed={evs[-1][3]}), expected True")
        out.probe("finished_after_start_raise")
        return None
    if kinds.count("start") != 1 or kinds[0] != "start":
        return out.violate("start_protocol", f"callback {name}: start calls {kinds.count('start')}, "
                                             f"first event {kinds[:1]}")
    if kinds.count("finish") != 1 or kinds[-1] != "finish":
        return out.violate("finish_protocol", f"callback {name}: finish calls {kinds.count('finish')}, "
                                              f"last event {kinds[-1:]}")
    if evs[-1][3] != failed:
        return out.violate("finish_flag", f"callback {name}: finish(failed={evs[-1][3]}), expected {failed}")
    if kinds.count("start_state") > 1 or (not failed and kinds.count("start_state") != 1):
        return out.violate("start_state_protocol", f"callback {name}: {kinds.count('start_state')} calls")
    pre, post = {}, {}
    for i, e in enumerate(evs):
        if e[2] == "pretask":
            if e[3] in pre:
                return out.violate("pretask_twice", f"callback {name}: key {e[3]!r}")
            pre[e[3]] = i
        elif e[2] == "posttask":
            if e[3] in post:
                return out.violate("posttask_twice", f"callback {name}: key {e[3]!r}")
            if e[3] not in pre:
                return out.violate("posttask_without_pretask", f"callback {name}: key {e[3]!r}")
            post[e[3]] = i
    if not failed and set(pre) != set(post):
        return out.violate("pretask_without_posttask",
                           f"callback {name}: {sorted(map(repr, set(pre) - set(post)))}")
    return set(pre), set(post)


def run_one(tape, cfg):
    from dask.callbacks import Callback, add_callbacks

    out = Outcome()
    log = []
    objs = {n: LogCb(n, log) for n in NAMES}
    cbs = {
        "A": Callback(*objs["A"].tuple()),
        "B": Callback(*objs["B"].tuple()),
        "T": objs["T"].tuple(),
        "X": Callback(*objs["X"].tuple()),
    }
    norm = {n: (c._callback if isinstance(c, Callback) else c) for n, c in cbs.items()}
    initial = set(Callback.active)
    registered = set()
    stack = []  # (names, context manager)
    hist = []
    abstract = set()
    nops = 2 + tape.draw(cfg["max_ops"] - 1, "nops")
    gets = 0
    digests = []

    def model_active():
        s = set(registered)
        for names, _ in stack:
            s.update(names)
        return s

    def held():
        s = set()
        for names, _ in stack:
            s.update(names)
        return s

    def compare(where):
        real = set(Callback.active) - initial
        want = {norm[n] for n in model_active()}
        lost = want - real
        if lost:
            names = sorted(n for n in NAMES if norm[n] in lost)
            return out.violate("deactivated_outer",
                               f"after {where}: callbacks {names} should still be active "
                               f"(history {hist})", where=where.split()[0])
        extra = real - want
        if extra:
            names = sorted(n for n in NAMES if norm[n] in extra)
            return out.violate("leaked_callback",
                               f"after {where}: callbacks {names} still active (history {hist})",
                               where=where.split()[0])
        return None

    try:
        for _ in range(nops):
            if out.status == "violation":
                break
            with tape.span("op"):
                op = tape.weighted([(4, "get"), (4, "enter"), (3, "exit"), (2, "register"),
                                    (1, "unregister"), (2, "get_fail"), (1, "get_cbraise"),
                                    (1, "get_interrupt")], "op")
                if op == "enter":
                    if len(stack) >= 4:
                        continue
                    how = tape.draw(5, "enterhow")
                    if how == 4 and len(stack) <= 2:
                        # context managers prepared first and entered afterwards (ExitStack style),
                        # possibly two for the same callback
                        names = tuple(NAMES[tape.draw(4, "cb")] for _ in range(2))
                        for n in names:
                            if n in model_active():
                                out.probe("same_cb_nested" if n in held() else "registered_then_entered")
                        if names[0] == names[1]:
                            out.probe("same_cb_nested")
                        ctxs = [add_callbacks(cbs[n]) for n in names]
                        out.probe("prepared_context_managers")
                        for n, ctx in zip(names, ctxs):
                            ctx.__enter__()
                            stack.append(((n,), ctx))
                    elif how < 2:
                        n = ("A", "B", "X")[tape.draw(3, "cb")]
                        names = (n,)
                        cm = cbs[n]
                        if n in model_active():
                            out.probe("same_cb_nested" if n in held() else "registered_then_entered")
                        cm.__enter__()  # exactly what `with cb:` does; exit via cb.__exit__
                        stack.append((names, cm))
                    else:
                        k = 1 + tape.draw(3, "ncb")
                        names = tuple(NAMES[tape.draw(4, "cb")] for _ in range(k))
                        for n in names:
                            if n in model_active():
                                out.probe("same_cb_nested" if n in held()
                                          else "registered_then_entered")
                        ctx = add_callbacks(*[cbs[n] for n in names])
                        ctx.__enter__()
                        stack.append((names, ctx))
                    hist.append(["enter", list(names)])
                    compare(f"enter {names}")
                elif op == "exit":
                    if not stack:
                        continue
                    names, ctx = stack.pop()
                    ctx.__exit__(None, None, None)
                    hist.append(["exit", list(names)])
                    compare(f"exit {names}")
                elif op == "register":
                    n = ("A", "B", "X")[tape.draw(3, "cb")]
                    if n in registered or n in held():
                        continue
                    cbs[n].register()
                    registered.add(n)
                    hist.append(["register", n])
                    compare(f"register {n}")
                elif op == "unregister":
                    cand = sorted(registered - held())
                    if not cand:
                        continue
                    n = cand[tape.draw(len(cand), "cb")]
                    cbs[n].unregister()
                    registered.discard(n)
                    hist.append(["unregister", n])
                    compare(f"unregister {n}")
                else:
                    gets += 1
                    spec = gg.gen_graph(tape, max_nodes=cfg["max_nodes"])
                    keyset = {gg.K(nd["key"]) for nd in spec["nodes"]}
                    request = gg.req_keys(gg.gen_request(tape, spec), keyset)
                    rcfg = sr.gen_cfg(tape, ("async", "threaded", "sync", "mp", "apply_async"))
                    vals, calls, deps = gg.evaluate(spec)
                    needed = gg.needed(spec, request, deps)
                    sites = []
                    for nd in spec["nodes"]:
                        if gg.K(nd["key"]) in needed:
                            sites.extend(gg.node_call_tags(nd))
                    fail, faults = None, None
                    for o in objs.values():
                        o.raise_at = None
                        o.count = dict.fromkeys(HOOKS, 0)
                    act = model_active()
                    if op == "get_fail" and sites:
                        fail = {sites[tape.draw(len(sites), "site")]: "ValueError"}
                    elif op == "get_cbraise" and act:
                        who = sorted(act)[tape.draw(len(act), "who")]
                        which = HOOKS[tape.draw(4, "which")]
                        objs[who].raise_at = (which, 1 if which.startswith("start")
                                              else 1 + tape.draw(3, "nth"))
                    elif op == "get_interrupt":
                        faults = {"interrupt": 1 + tape.draw(3, "nth")}
                    mark = len(log)
                    # the failed task re-executed in the calling thread (a debugging aid): still one
                    # pretask per task
                    rerun = fail is not None and tape.chance(1, 3, "rerun_locally")
                    if rerun:
                        out.probe("rerun_exceptions_locally")
                    obs = sr.run_graph(tape, spec, request, rcfg, fail=fail, faults=faults,
                                       extra_kw={"rerun_exceptions_locally": True} if rerun else None)
                    digests.append(obs.sim.digest())
                    events = log[mark:]
                    failed = obs.exc is not None
                    hist.append([op, rcfg["entry"], "raised" if failed else "ok"])
                    if failed:
                        out.probe("get_failed")
                    if any(e[0] == "cbraise" for e in events):
                        out.probe("cb_raised")
                    if obs.sim.fired.get("interrupt"):
                        out.probe("interrupt")
                    if obs.exc is not None and sr.is_sim_abort(obs.exc):
                        out.violate("hang", f"{type(obs.exc).__name__}: {obs.exc}")
                        break
                    if op == "get" and failed:
                        d = sr.describe_exc(obs.exc)
                        out.violate("get_raised", f"{d['exc_type']} at {d['site']}: {d['msg']}", **d)
                        break
                    soft = op == "get_cbraise" and failed
                    start_raiser = next((e[1] for e in events if e[0] == "cbraise" and e[2] == "start"),
                                        None)
                    if start_raiser is not None and not failed:
                        out.violate("start_raise_swallowed",
                                    f"callback {start_raiser}'s start hook raised but the call returned")
                        break
                    sets = {}
                    for n in NAMES:
                        r = check_protocol(out, events, n, n in act, failed, soft, start_raiser)
                        if out.status == "violation":
                            break
                        if r is not None:
                            sets[n] = r
                    if out.status == "violation":
                        out.message += f" (history {hist})"
                        break
                    # every active callback sees the same executed keys as the harness recorder
                    recpre = {e[3] for e in obs.log if e[0] == "cb" and e[1] == "rec"
                              and e[2] == "pretask"}
                    for n, (pre, post) in sets.items():
                        if not failed and pre != recpre:
                            out.violate("callbacks_disagree",
                                        f"callback {n} saw pretask for {sorted(map(repr, pre))}, "
                                        f"recorder saw {sorted(map(repr, recpre))}")
                            break
                    compare(f"{op} ({rcfg['entry']})")
            abstract.add((tuple(sorted(registered)), tuple(n for n, _ in stack)))
        # unwind
        if out.status != "violation":
            while stack:
                names, ctx = stack.pop()
                ctx.__exit__(None, None, None)
                hist.append(["exit", list(names)])
                if compare(f"exit {names}") is not None:
                    break
        if out.status != "violation":
            for n in sorted(registered):
                cbs[n].unregister()
            registered.clear()
            if set(Callback.active) != initial:
                out.violate("active_not_restored", f"Callback.active differs from its initial value "
                                                   f"after unwinding (history {hist})")
    finally:
        Callback.active = set(initial)
    out.decoded = {"history": hist}
    out.wdigest = dg(hist)
    out.digest = dg(digests)
    out.abstract = tuple(abstract)
    out.nontrivial = len(hist) >= 3 and gets >= 1 and (
        out.probes.get("same_cb_nested", 0) + out.probes.get("registered_then_entered", 0) > 0)
    out.policy = "history"
    for src, dst in (("get_failed", "scheduler_call_failed"), ("cb_raised", "callback_raised"),
                     ("interrupt", "client_interrupt")):
        if out.probes.get(src):
            out.faults[dst] = out.probes[src]
    return out

"""C29 — storing arrays writes exactly the array into the targets.

E2: every load_store_chunk task runs on a simulated worker thread; the target is
a SimTarget whose writes are read-modify-write over g-aligned blocks, so that
unlocked concurrent writes *would* lose updates.  Also: to_npy_stack ->
from_npy_stack on a scratch directory."""
from __future__ import annotations

import os
import shutil

from sim.core import Outcome, dg, exc_site
from sim.simtarget import SimTarget
from sim.simthreads import SimAbort, SimLock, SimThreadPool, SimThreads

META = {
    "level": "exploration",
    "budget": {"quick": {"seconds": 75, "runs": 500},
               "thorough": {"seconds": 900, "runs": 10**9}},
    "rule": ("one evaluation = 1-3 source arrays (1-3 d, irregular chunks) stored with da.store into own or "
             "shared SimTargets (read-modify-write granularity g in {1,2,3,4,8}) with random regions, "
             "lock in {True, Lock, SerializableLock, False}, compute True/False-then-compute, return_stored; "
             "chunk writes run on 2-4 simulated worker threads under a tape-chosen interleaving; a slice of "
             "runs does to_npy_stack/from_npy_stack; distinct = distinct (workload, interleaving digest); "
             "non-trivial = >=2 chunk writes were in flight or queued behind the lock at the same time"),
    "abstract_measure": "distinct (writes in flight, lock held) pairs seen at target operations",
    "gates": {"quick": {"lock_contended": 500, "rmw_target": 1000, "shared_target": 500,
                        "deferred_compute": 500, "unlocked_atomic": 300, "npy_stack": 200,
                        "rmw_target_with_chunks_attr": 500},
              "thorough": {"lock_contended": 500}},
    "anchors": ["dask/array/core.py", "dask/utils.py"],
    "real": ["dask.array.store / load_store_chunk / load_chunk / fuse_slice", "dask.array graph construction "
             "and optimisation", "dask.threaded.get + get_async", "dask.utils.SerializableLock / "
             "get_scheduler_lock", "to_npy_stack / from_npy_stack on real files in a scratch directory"],
    "stubbed": ["OS thread pool -> SimThreadPool (baton-passed real threads)",
                "threading.Lock -> SimLock", "storage target -> SimTarget (numpy-backed, RMW blocks)"],
    "assumptions": ["lock=False is only required to be exact on element-atomic targets (g = 1)",
                    "NumPy code inside a chunk write is not pre-empted (only between read/modify/write-back)"],
}


GC_EACH_RUN = True  # see sim/worker.run_tape


def tier_cfg(tier):
    return {"maxdim": 6 if tier == "quick" else 9}


def setup(cfg):
    import dask.array  # noqa: F401


def split(tape, n):
    """Irregular chunks of a dimension of length n."""
    out, left = [], n
    while left > 0:
        c = 1 + tape.draw(left, "chunk")
        if tape.chance(1, 2, "small") and c > 2:
            c = 1 + tape.draw(2, "chunk2")
        out.append(c)
        left -= c
    return tuple(out) if out else (0,)


def run_one(tape, cfg):
    import numpy as np

    import dask
    import dask.array as da
    import dask.threaded
    import dask.utils as du

    out = Outcome()
    with tape.span("workload"):
        npy = tape.draw(8, "npy") == 7
        ndim = 1 + tape.draw(3, "ndim")
        nsrc = 1 + tape.draw(3, "nsrc")
        shared = nsrc > 1 and tape.chance(1, 2, "shared")
        trailing = tuple(1 + tape.draw(3, "dim") for _ in range(ndim - 1))
        g = (1, 2, 3, 4, 8)[tape.draw(5, "g")]
        advertise = tape.chance(1, 2, "advertise_chunks")
        lock_kind = ("true", "simlock", "serializable", "false")[tape.draw(4, "lock")]
        if lock_kind == "false":
            g = 1
        compute = not tape.chance(1, 3, "deferred")
        # several lazy stores built by separate calls and computed together
        separate = (not compute) and nsrc > 1 and tape.chance(1, 2, "separate_calls")
        if separate and shared and lock_kind == "true":
            # lock=True makes one lock per store call ("lock each file individually"): separate calls
            # writing into one read-modify-write target need a lock object shared by the caller
            g = 1
        return_stored = tape.chance(1, 4, "return_stored")
        use_regions = shared or tape.chance(1, 2, "regions")
        nworkers = 2 + tape.draw(3, "nworkers")
        policy = tape.choice(SimThreads.POLICIES, "policy")
        srcs = []
        for i in range(nsrc):
            n0 = 1 + tape.draw(cfg["maxdim"], "n0")
            tr = trailing if shared else tuple(1 + tape.draw(3, "dim") for _ in range(ndim - 1))
            shape = (n0,) + tr
            chunks = tuple(split(tape, s) for s in shape)
            srcs.append({"shape": shape, "chunks": chunks, "off": tuple(tape.draw(3, "off") for _ in shape),
                         "pad": tuple(tape.draw(3, "pad") for _ in shape)})
        many_blocks = npy and tape.chance(1, 3, "many_blocks")
        if many_blocks:
            # more than ten blocks along the stacking axis (block files 0.npy ... 1x.npy)
            n0 = 11 + tape.draw(4, "n0big")
            srcs[0]["shape"] = (n0,) + tuple(srcs[0]["shape"][1:])
            srcs[0]["chunks"] = ((1,) * n0,) + tuple(srcs[0]["chunks"][1:])
        zero_chunk = npy and not many_blocks and tape.chance(1, 4, "zero_chunk")
        if zero_chunk:
            # a zero-length block along the stacking axis (e.g. a boolean filter that hit nothing there)
            c0 = list(srcs[0]["chunks"][0])
            c0.insert(tape.draw(len(c0) + 1, "zpos"), 0)
            srcs[0]["chunks"] = (tuple(c0),) + tuple(srcs[0]["chunks"][1:])
    wl = {"ndim": ndim, "shared": shared, "g": g, "advertise_chunks": advertise, "lock": lock_kind, "compute": compute, "separate_calls": separate,
          "return_stored": return_stored, "regions": use_regions, "nworkers": nworkers,
          "policy": policy, "sources": srcs, "npy": npy}
    out.decoded = wl
    out.wdigest = dg(wl)
    out.policy = policy

    rng = np.random.RandomState(tape.draw(1000, "data"))
    # the same source stored into two different (equal-looking) targets in one call
    dup = nsrc > 1 and not shared and not npy and tape.chance(1, 4, "dup")
    if dup:
        srcs[1] = dict(srcs[0])
        out.probe("same_source_twice")
    wl["same_source_twice"] = bool(dup)
    arrays = [rng.randint(0, 1000, size=s["shape"]).astype("i8") for s in srcs]
    if dup:
        arrays[1] = arrays[0]
    sched = SimThreads(tape, policy=policy, step_cap=60000)
    saved_lock = du.Lock
    du.Lock = SimLock
    problems = []
    box = {}
    pools = []
    scratch = None
    try:
        with sched:
            pool = SimThreadPool(sched, nworkers)
            pools.append(pool)

            def simget(dsk, keys, **kw):
                return dask.threaded.get(dsk, keys, pool=pool, **kw)

            if npy:
                out.probe("npy_stack")
                scratch = os.path.abspath(f"npy-{os.getpid()}")
                shutil.rmtree(scratch, ignore_errors=True)
                x = arrays[0]
                axis = tape.draw(x.ndim, "axis")
                if many_blocks:
                    axis = 0
                    out.probe("npy_stack_many_blocks")
                if zero_chunk:
                    axis = 0
                    out.probe("npy_stack_zero_length_block")
                dx = da.from_array(x, chunks=srcs[0]["chunks"])

                twin = tape.chance(1, 3, "twin_stack")

                def client():
                    if twin:
                        # two stacks with the same directory name under different parents, other
                        # contents, loaded in one computation
                        out.probe("npy_two_stacks_same_basename")
                        d1, d2 = os.path.join(scratch, "run1", "stack"), os.path.join(scratch, "run2", "stack")
                        os.makedirs(d1)
                        os.makedirs(d2)
                        with dask.config.set(scheduler=simget):
                            da.to_npy_stack(d1, dx, axis=axis)
                            da.to_npy_stack(d2, dx + 1000, axis=axis)
                        b1, b2 = da.from_npy_stack(d1), da.from_npy_stack(d2)
                        box["chunks_axis"] = b1.chunks[axis]
                        box["value"], box["value2"] = dask.compute(b1, b2, scheduler=simget)
                        return
                    with dask.config.set(scheduler=simget):
                        da.to_npy_stack(scratch, dx, axis=axis)
                    back = da.from_npy_stack(scratch)
                    box["chunks_axis"] = back.chunks[axis]
                    box["value"] = back.compute(scheduler=simget)

                st = sched.spawn(client, "client")
                res = sched.run()
                if st.exc is not None:
                    problems.append(("store_raised", f"{type(st.exc).__name__} at {exc_site(st.exc)}: "
                                                     f"{st.exc}"))
                elif res != "ok":
                    problems.append(("no_termination", f"threads result {res}: {sched.deadlock}"))
                else:
                    if not np.array_equal(box["value"], x) or box["value"].dtype != x.dtype:
                        problems.append(("npy_stack_roundtrip", f"from_npy_stack(to_npy_stack(x)) != x; "
                                                                f"axis={axis}"))
                    if "value2" in box and not np.array_equal(box["value2"], x + 1000):
                        problems.append(("npy_stack_roundtrip", f"second stack (same directory name, other "
                                                                f"parent) loaded together != its array; axis={axis}"))
                    if tuple(box["chunks_axis"]) != tuple(srcs[0]["chunks"][axis]):
                        problems.append(("npy_stack_chunks", f"chunks along axis {axis}: "
                                                             f"{box['chunks_axis']} != {srcs[0]['chunks'][axis]}"))
            else:
                # ---- targets and regions
                targets, regions, expect = [], [], []
                if shared:
                    out.probe("shared_target")
                    total0 = sum(s["shape"][0] for s in srcs) + srcs[0]["off"][0] + srcs[0]["pad"][0]
                    tshape = (total0,) + tuple(d + o + p for d, o, p in
                                               zip(srcs[0]["shape"][1:], srcs[0]["off"][1:], srcs[0]["pad"][1:]))
                    tgt = SimTarget(tshape, "i8", g=g, advertise=advertise)
                    want = tgt.data.copy()
                    pos = srcs[0]["off"][0]
                    for s, a in zip(srcs, arrays):
                        reg = (slice(pos, pos + s["shape"][0]),) + tuple(
                            slice(o, o + d) for d, o in zip(s["shape"][1:], srcs[0]["off"][1:]))
                        want[reg] = a
                        pos += s["shape"][0]
                        targets.append(tgt)
                        regions.append(reg)
                    expect = [(tgt, want)]
                else:
                    for s, a in zip(srcs, arrays):
                        if use_regions:
                            tshape = tuple(d + o + p for d, o, p in zip(s["shape"], s["off"], s["pad"]))
                            reg = tuple(slice(o, o + d) for d, o in zip(s["shape"], s["off"]))
                        else:
                            tshape, reg = s["shape"], None
                        tgt = SimTarget(tshape, "i8", g=g, advertise=advertise)
                        want = tgt.data.copy()
                        if reg is None:
                            want[...] = a
                        else:
                            want[reg] = a
                        targets.append(tgt)
                        regions.append(reg)
                        expect.append((tgt, want))
                if g > 1:
                    out.probe("rmw_target")
                    if advertise:
                        out.probe("rmw_target_with_chunks_attr")
                if lock_kind == "false":
                    out.probe("unlocked_atomic")
                if not compute:
                    out.probe("deferred_compute")
                if separate:
                    out.probe("separate_lazy_stores")
                lock = {"true": True, "false": False}.get(lock_kind)
                if lock_kind == "simlock":
                    lock = SimLock()
                elif lock_kind == "serializable":
                    lock = du.SerializableLock()
                dsrcs = [da.from_array(a, chunks=s["chunks"]) for a, s in zip(arrays, srcs)]
                if dup:
                    dsrcs[1] = dsrcs[0]
                kw = {"lock": lock, "compute": compute, "return_stored": return_stored,
                      "scheduler": simget}
                if use_regions:
                    kw["regions"] = regions if len(regions) > 1 or tape.chance(1, 2, "reglist") else regions[0]
                pristine = [t.data.copy() for t, _ in expect]

                def client():
                    src_arg = dsrcs if len(dsrcs) > 1 or tape.chance(1, 2, "srclist") else dsrcs[0]
                    tgt_arg = targets if len(targets) > 1 or not isinstance(src_arg, da.Array) else targets[0]
                    if separate:
                        res = []
                        for j, (sj, tj) in enumerate(zip(dsrcs, targets)):
                            kwj = dict(kw)
                            if use_regions:
                                kwj["regions"] = regions[j]
                            res.append(da.store(sj, tj, **kwj))
                        res = tuple(res)
                    else:
                        res = da.store(src_arg, tgt_arg, **kw)
                    if not compute:
                        for (t, _), p in zip(expect, pristine):
                            if not np.array_equal(t.data, p):
                                problems.append(("deferred_store_wrote_early",
                                                 "compute=False but the target changed before compute"))
                        if return_stored:
                            res2 = dask.compute(res, scheduler=simget)[0]
                            box["stored"] = res2
                        else:
                            dask.compute(res, scheduler=simget)
                    elif return_stored:
                        box["stored"] = dask.compute(res, scheduler=simget)[0]
                    else:
                        if res is not None:
                            problems.append(("store_return_value", f"store(compute=True) returned {res!r}"))

                st = sched.spawn(client, "client")
                res = sched.run()
                if st.exc is not None:
                    problems.append(("store_raised", f"{type(st.exc).__name__} at {exc_site(st.exc)}: "
                                                     f"{st.exc}"))
                elif res != "ok":
                    problems.append(("no_termination", f"threads result {res}: {sched.deadlock}"))
                else:
                    for i, (t, want) in enumerate(expect):
                        if not np.array_equal(t.data, want):
                            bad = np.argwhere(t.data != want)
                            problems.append(("target_mismatch",
                                             f"target {i}: {len(bad)} wrong elements, first at "
                                             f"{bad[0].tolist()}: got {t.data[tuple(bad[0])]} want "
                                             f"{want[tuple(bad[0])]} (lock={lock_kind}, g={g})"))
                            break
                        if lock_kind != "false" and t.overlaps:
                            problems.append(("writes_overlapped_under_lock",
                                             f"target {i}: {t.overlaps} overlapping writes in flight "
                                             f"although lock={lock_kind}"))
                            break
                    if return_stored and not problems:
                        stored = box.get("stored")
                        if isinstance(stored, np.ndarray):
                            stored = (stored,)
                        if stored is None or len(stored) != len(arrays):
                            problems.append(("return_stored_shape", f"returned {type(stored)}"))
                        else:
                            for a, s in zip(arrays, stored):
                                if not np.array_equal(a, s):
                                    problems.append(("return_stored_value",
                                                     "returned stored array differs from the source"))
                                    break
                for t in {id(t): t for t in targets}.values():
                    if t.concurrent:
                        out.probe("writes_in_flight_together")
    finally:
        du.Lock = saved_lock
        dask.threaded.pools.clear()
        if scratch:
            shutil.rmtree(scratch, ignore_errors=True)
    out.digest = sched.digest()
    out.probes.update({k: v for k, v in sched.probes.items()})
    out.sim_time = float(sched.steps)
    out.nontrivial = sched.probes.get("lock_contended", 0) > 0 or sched.probes.get("parallel_items", 0) > 0
    if problems:
        out.violate(problems[0][0], problems[0][1], lock=lock_kind)
    return out

"""C03 — intermediate results are never released early and never leaked.

The real scheduler state (state['cache'], state['released']; existing seam:
callbacks receive `state`) is compared after every scheduler step with an
independent reference retention model (sim/models/refsched.py)."""
from __future__ import annotations

from checks import c01
from sim import graphgen as gg
from sim import schedrun as sr
from sim.core import Outcome

META = dict(c01.META)
META["rule"] = ("same run space as C01, graphs biased to shared dependencies; after every scheduler "
                "step the real cache/released sets are compared with a reference retention model; "
                "distinct = distinct (workload digest, event-sequence digest); non-trivial = >=3 "
                "needed keys, >=2 jobs open at once and at least one result released during the run")
META["gates"] = {"quick": {"multi_open": 100, "released_some": 500, "requested_intermediate": 100,
                           "caller_supplied_cache": 2000},
                 "thorough": {"multi_open": 100}}
META["real"] = c01.META["real"] + ["dask.local.release_data / finish_task bookkeeping observed "
                                   "through the callback `state` argument"]


def tier_cfg(tier):
    return c01.tier_cfg(tier)


def run_one_threads(tape, cfg, out):
    from sim import schedthreads as st

    spec, tcfg, clients, reqs = c01.gen_threads_workload(tape, cfg)
    vals, calls, deps = gg.evaluate(spec)
    obs_list, sched = st.run_threads(tape, spec, clients, tcfg)
    needs = [gg.needed(spec, c["request"], deps) for c in clients]
    c01.threads_outcome(out, obs_list, sched, spec, reqs, tcfg, [len(n) for n in needs])
    for i, (obs, c) in enumerate(zip(obs_list, clients)):
        for k, v in obs.rec.probes.items():
            out.probe(k, v)
        retention_oracle(out, obs, c["request"], deps, needs[i], "threads")
        if out.status == "violation":
            out.message = f"client {i}: " + out.message
            break
    return out


def run_one(tape, cfg):
    out = Outcome()
    if c01.use_threads(tape, cfg):
        return run_one_threads(tape, cfg, out)
    spec, req_json, request, rcfg = c01.gen_workload(tape, cfg)
    vals, calls, deps = gg.evaluate(spec)
    needed = gg.needed(spec, request, deps)
    # the result store handed in by the caller (cache=<mapping>) instead of the scheduler's own dict
    store = {} if tape.chance(1, 4, "caller_cache") else None
    obs = sr.run_graph(tape, spec, request, rcfg, extra_kw=None if store is None else {"cache": store})
    c01.base_outcome(out, obs, spec, req_json, rcfg, needed)
    out.nontrivial = out.nontrivial and bool(obs.rec.probes.get("released_some"))
    retention_oracle(out, obs, request, deps, needed, rcfg["entry"])
    if store is not None:
        out.probe("caller_supplied_cache")
        if out.status != "violation" and obs.exc is None:
            requested = set(gg.flatten_request(request))
            extra = set(store) - requested
            if extra:
                out.violate("leaked", f"the caller's cache mapping still holds results that were not "
                                      f"requested: {sorted(map(repr, extra))}", entry=rcfg["entry"])
    return out


def retention_oracle(out, obs, request, deps, needed, entry):
    rec = obs.rec
    requested = set(gg.flatten_request(request))
    rcfg = {"entry": entry}
    # a requested key that other needed tasks depend on
    if any(deps[k] & requested for k in needed):
        out.probe("requested_intermediate")
    if rec.problems:
        o, msg = rec.problems[0]
        return out.violate(o, msg, entry=rcfg["entry"])
    if obs.exc is not None:
        d = sr.describe_exc(obs.exc)
        if d["exc_type"] == "KeyError":
            return out.violate("released_early", f"KeyError at {d['site']}: {d['msg']}", **d,
                               entry=rcfg["entry"])
        out.info["inconclusive_call_raised"] = 1
        return out
    fin = rec.final
    if fin is None:
        return out.violate("no_finish_callback", "finish callback never ran")
    if fin["failed"]:
        return out.violate("failed_flag_on_success", "finish(failed=True) on a successful call")
    missing = requested - fin["cache"]
    if missing:
        return out.violate("requested_released",
                           f"requested results not held at return: {sorted(map(repr, missing))}",
                           entry=rcfg["entry"])
    leaked = fin["cache"] - requested
    if leaked:
        return out.violate("leaked",
                           f"results still held at return although not requested: "
                           f"{sorted(map(repr, leaked))}", entry=rcfg["entry"])
    return out

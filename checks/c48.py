"""C48 — bag operations equal their Python reference, under real scheduling,
across the process boundary, and with the disk / task shuffles."""
from __future__ import annotations

import itertools
import os
import shutil
from collections import Counter

from sim import bagfns as bf
from sim import schedrun as sr
from sim.core import Outcome, dg, exc_site

META = {
    "level": "exploration",
    "budget": {"quick": {"seconds": 75, "runs": 450},
               "thorough": {"seconds": 1200, "runs": 10**9}},
    "rule": ("one evaluation = one sequence (ints with duplicates, 1-6 partitions incl. empty ones) x a pipeline of "
             "0-3 transforms {map, filter, remove, map_partitions, pluck, starmap, flatten, repartition, zip, "
             "concat, accumulate} + one terminal {identity, distinct, frequencies, topk, fold, reduction, foldby, "
             "groupby (disk shuffle on real partd files / task shuffle with max_branch 2-3), join, product, take, "
             "sum/max/min/mean/var/std/count/any/all} x split_every, computed under a simulated schedule on "
             "sync / threaded / get_async / multiprocessing (cloudpickle boundary, fusion on/off) and compared "
             "with plain Python and with a second scheduler; distinct = distinct (pipeline, event digest); "
             "non-trivial = >=2 non-empty partitions and >=2 jobs open at once"),
    "abstract_measure": "distinct (terminal op, entry point) pairs",
    "gates": {"quick": {"groupby_disk": 80, "groupby_tasks": 80, "mp_boundary": 700, "empty_partition": 600,
                        "multi_open": 1000, "big_repartition": 100},
              "thorough": {"groupby_disk": 100}},
    "anchors": ["dask/bag/core.py", "dask/bag/chunk.py"],
    "real": ["dask.bag.core (all listed operations, groupby_disk / groupby_tasks, reductions)",
             "partd (File/Python/Snappy-less) on real files in a per-run scratch directory",
             "get_async / threaded.get / multiprocessing.get with cloudpickle and fuse"],
    "stubbed": ["OS pools -> SimExecutor"],
    "assumptions": ["partd itself is not fault-injected (third party); every append/get is a task and therefore "
                    "a scheduling event", "order-free operations are compared as multisets / dicts"],
}

TRANSFORMS = ("map", "filter", "remove", "map_partitions", "pair_pluck", "starmap", "flatten", "repartition",
              "zip", "concat", "accumulate", "concat", "repartition", "map", "zip_self", "map_self",
              "concat_other", "concat_plain", "concat_plain", "accumulate_initial", "concat_from_sequence")
TERMINALS = ("identity", "distinct", "frequencies", "topk", "fold", "reduction", "foldby", "groupby_disk",
             "groupby_tasks", "join", "product", "take", "sum", "max", "min", "mean", "var", "std", "count",
             "any", "all", "product", "join", "foldby", "product_self", "join_self", "distinct_key", "topk_key",
             "take_some", "groupby_disk", "groupby_tasks")


GC_EACH_RUN = True  # see sim/worker.run_tape


def tier_cfg(tier):
    return {"maxlen": 6 if tier == "quick" else 12}


def setup(cfg):
    import dask.bag  # noqa: F401
    import partd  # noqa: F401


def make_bag(parts, name):
    import dask.bag as db

    dsk = {(name, i): list(p) for i, p in enumerate(parts)}
    return db.Bag(dsk, name, len(parts))


def run_one(tape, cfg):
    import dask
    import dask.bag as db

    out = Outcome()
    with tape.span("workload"):
        # "big": one or two long partitions split into many pieces (split() computes float boundaries)
        big = tape.chance(1, 12, "big")
        nparts = 1 + tape.draw(2 if big else 6, "nparts")
        parts = []
        for _ in range(nparts):
            if big:
                m = 1 + tape.draw(64, "plen")
            else:
                m = 0 if tape.chance(1, 4, "empty") else 1 + tape.draw(cfg["maxlen"], "plen")
            parts.append([tape.draw(9, "elem") for _ in range(m)])
        steps = [TRANSFORMS[tape.draw(len(TRANSFORMS), "tr")] for _ in range(tape.draw(4, "nsteps"))]
        if big:
            steps = ["repartition"] + steps[:1]
        term = TERMINALS[tape.draw(len(TERMINALS), "term")]
        split_every = (None, 2, 3)[tape.draw(3, "split")]
        max_branch = 2 + tape.draw(2, "mb")
        gnp = 1 + tape.draw(4, "gnp")
        k = 1 + tape.draw(4, "k")
        other = [tape.draw(6, "o") for _ in range(1 + tape.draw(4, "no"))]
        rep = 2 + tape.draw(40, "rep") if big else 1 + tape.draw(5, "rep")
    wl = {"parts": parts, "steps": steps, "terminal": term, "split_every": split_every,
          "max_branch": max_branch, "groupby_npartitions": gnp, "k": k, "other": other, "repartition": rep}
    out.decoded = wl
    out.wdigest = dg(wl)
    if big:
        out.probe("big_repartition")
    has_empty = any(not p for p in parts)
    if has_empty:
        out.probe("empty_partition")

    # ---- build the bag pipeline and the plain-Python reference side by side
    b = make_bag(parts, "verif-bag")
    ref = [x for p in parts for x in p]
    ref_parts = [list(p) for p in parts]      # only tracked while partition structure is known
    paired = False
    try:
        for st in steps:
            if st == "map":
                b, ref = b.map(bf.add1), [x + 1 for x in ref]
                ref_parts = [[x + 1 for x in p] for p in ref_parts] if ref_parts is not None else None
            elif st == "filter":
                b, ref = b.filter(bf.is_even), [x for x in ref if x % 2 == 0]
                ref_parts = [[x for x in p if x % 2 == 0] for p in ref_parts] if ref_parts is not None else None
            elif st == "remove":
                b, ref = b.remove(bf.is_even), [x for x in ref if x % 2 != 0]
                ref_parts = [[x for x in p if x % 2 != 0] for p in ref_parts] if ref_parts is not None else None
            elif st == "map_partitions":
                if ref_parts is None:
                    continue
                b = b.map_partitions(bf.cumsum_part)
                ref_parts = [bf.cumsum_part(p) for p in ref_parts]
                ref = [x for p in ref_parts for x in p]
            elif st == "pair_pluck":
                b = b.map(bf.pair).pluck(1)
            elif st == "starmap":
                b = b.map(bf.pair).starmap(bf.addpair)
                ref = [x % 4 + x for x in ref]
                ref_parts = [[x % 4 + x for x in p] for p in ref_parts] if ref_parts is not None else None
            elif st == "flatten":
                b = b.map(bf.dup).flatten()
                ref = [y for x in ref for y in (x, x + 100)]
                ref_parts = [[y for x in p for y in (x, x + 100)] for p in ref_parts] \
                    if ref_parts is not None else None
            elif st == "repartition":
                b = b.repartition(npartitions=rep)
                ref_parts = None
            elif st == "zip_self":
                # the same (possibly lazy) partition referenced twice by one task
                b = db.zip(b, b).starmap(bf.addpair)
                ref = [x + x for x in ref]
                ref_parts = [[x + x for x in p] for p in ref_parts] if ref_parts is not None else None
            elif st == "map_self":
                b = b.map(bf.add, b)
                ref = [x + x for x in ref]
                ref_parts = [[x + x for x in p] for p in ref_parts] if ref_parts is not None else None
            elif st == "zip":
                b = db.zip(b, b.map(bf.mul2)).map(bf.first)
            elif st == "concat_other":
                # concat with an independent bag: the (lazy) partitions of b.map(...) get exactly one
                # dependent, the alias inside concat (stacked when the step repeats)
                ob2 = db.from_sequence(other, npartitions=min(2, len(other)))
                b = db.concat([b.map(bf.add1), ob2])
                ref = [x + 1 for x in ref] + list(other)
                ref_parts = None
            elif st == "concat_plain":
                # plain concat: every output partition is an alias of an input partition (aliases
                # stack when concat steps follow each other)
                ob2 = db.from_sequence(other, npartitions=min(2, len(other)))
                b = db.concat([b, ob2])
                ref = ref + list(other)
                ref_parts = None
            elif st == "concat_from_sequence":
                # two bags made by from_sequence from the same data with different partitionings
                flat0 = [x for p in parts for x in p]
                if not flat0:
                    continue
                pa = 1 + tape.draw(3, "fsa")
                pb = pa + 1 + tape.draw(2, "fsb")
                b = db.concat([b, db.from_sequence(flat0, npartitions=pa), db.from_sequence(flat0, npartitions=pb)])
                ref = ref + flat0 + flat0
                ref_parts = None
                out.probe("from_sequence_same_data_two_partitionings")
            elif st == "concat":
                b = db.concat([b, b.map(bf.add1)])
                ref = ref + [x + 1 for x in ref]
                ref_parts = None
            elif st == "accumulate_initial":
                b = b.accumulate(bf.add, initial=10)
                ref = list(itertools.accumulate(ref, bf.add, initial=10))
                ref_parts = None
            elif st == "accumulate":
                b = b.accumulate(bf.add)
                acc, s = [], None
                for x in ref:
                    s = x if s is None else s + x
                    acc.append(s)
                ref = acc
                ref_parts = None
        kw = {} if split_every is None else {"split_every": split_every}
        mode = "list"
        if term == "identity":
            res, want = b, ref
        elif term == "distinct":
            res, want, mode = b.distinct(), sorted(set(ref)), "sorted"
        elif term == "distinct_key":
            # one representative per key; which one is not promised
            res, want, mode = b.distinct(key=bf.mod3), sorted({x % 3 for x in ref}), "distinct_key"
        elif term == "topk_key":
            res, want = b.topk(k, key=bf.neg, **kw), sorted(ref)[:k]
        elif term == "take_some":
            if ref_parts is None:
                res, want, mode = None, ref[:k], "take"
            else:
                take_n = 1 + tape.draw(len(ref_parts), "take_n")
                res, want, mode = None, [x for p in ref_parts[:take_n] for x in p][:k], "take"
        elif term == "frequencies":
            res, want, mode = b.frequencies(**kw), dict(Counter(ref)), "dict"
        elif term == "topk":
            res, want = b.topk(k, **kw), sorted(ref, reverse=True)[:k]
        elif term == "fold":
            res, want, mode = b.fold(bf.add, **kw), (sum(ref) if ref else None), "scalar"
            if not ref:
                out.status = "discard"      # fold of an empty bag without initial is an error by design
                return out
        elif term == "reduction":
            res, want, mode = b.reduction(bf.sum_perpartition, bf.sum_aggregate, **kw), sum(ref), "scalar"
        elif term == "foldby":
            # count per key: binop (acc + 1) and combine (add) are NOT interchangeable
            if tape.chance(1, 2, "combine_initial"):
                res = b.foldby(bf.mod3, bf.count_binop, 0, bf.add, 0, **kw)
            else:
                res = b.foldby(bf.mod3, bf.count_binop, 0, bf.add, **kw)
            want, mode = dict(Counter(x % 3 for x in ref)), "dict"
        elif term in ("groupby_disk", "groupby_tasks"):
            out.probe(term)
            if term == "groupby_disk":
                # blocksize: elements written to the on-disk store per append
                gbs = (2 ** 20, 1, 2, 3, 8)[tape.draw(5, "gblocksize")]
                if gbs < 2 ** 20:
                    out.probe("groupby_disk_small_blocksize")
                # the spill directory is read from the configuration when the graph is BUILT; the
                # result is computed twice below against the same directory
                os.makedirs(os.path.abspath("spill"), exist_ok=True)
                with dask.config.set(temporary_directory=os.path.abspath("spill")):
                    res = b.groupby(bf.mod3, shuffle="disk", npartitions=gnp, blocksize=gbs)
                out.probe("groupby_disk_with_temporary_directory")
            else:
                res = b.groupby(bf.mod3, shuffle="tasks", max_branch=max_branch)
            d = {}
            for x in ref:
                d.setdefault(x % 3, []).append(x)
            want, mode = {kk: sorted(v) for kk, v in d.items()}, "groups"
        elif term == "join":
            res = b.join(other, bf.mod3, bf.mod3)
            want = sorted((o, x) for x in ref for o in other if o % 3 == x % 3)
            mode = "sorted"
        elif term in ("product_self", "join_self"):
            if term == "join_self" and b.npartitions == 1:
                res = b.join(b, bf.mod3, bf.mod3)
                want = sorted((o, x) for x in ref for o in ref if o % 3 == x % 3)
            else:
                res = b.product(b)
                want = sorted((x, y) for x in ref for y in ref)
            mode = "sorted"
        elif term == "product":
            ob = db.from_sequence(other, npartitions=min(2, len(other)))
            res, want, mode = b.product(ob), sorted((x, o) for x in ref for o in other), "sorted"
        elif term == "take":
            res, want, mode = None, ref[:k], "take"
        elif term in ("sum", "max", "min", "count", "any", "all"):
            if term in ("max", "min") and not ref:
                out.status = "discard"
                return out
            res = getattr(b, term)(**kw)
            want = {"sum": sum(ref), "max": max(ref) if ref else None, "min": min(ref) if ref else None,
                    "count": len(ref), "any": any(ref), "all": all(ref)}[term]
            mode = "scalar"
        else:  # mean / var / std
            if not ref:
                out.status = "discard"
                return out
            n = len(ref)
            mean = sum(ref) / n
            var = sum((x - mean) ** 2 for x in ref) / n
            want = {"mean": mean, "var": var, "std": var ** 0.5}[term]
            res, mode = getattr(b, term)(), "float"
    except Exception as e:  # noqa: BLE001
        out.violate("construction_raised", f"{wl}: {type(e).__name__} at {exc_site(e)}: {e}",
                    exc_type=type(e).__name__, terminal=term)
        return out

    spill = os.path.abspath("spill")
    os.makedirs(spill, exist_ok=True)
    runs, digests, values = [], [], []
    if "take_n" not in locals():
        take_n = -1

    def norm(v):
        if mode == "list" or mode == "take":
            return list(v)
        if mode == "sorted":
            return sorted(v)
        if mode == "distinct_key":
            v = list(v)
            if any(x not in ref for x in v) or len({x % 3 for x in v}) != len(v):
                return ["invalid", v]
            return sorted(x % 3 for x in v)
        if mode == "dict":
            return dict(v)
        if mode == "groups":
            if isinstance(v, dict):
                return v
            return {kk: sorted(vs) for kk, vs in v}
        return v

    try:
        with dask.config.set(temporary_directory=spill):
            for i in range(2):
                r = sr.SimRun(tape, step_cap=60000)
                runs.append(r)
                try:
                    with r:
                        if mode == "take":
                            with dask.config.set(scheduler=r.get):
                                v = b.take(k, npartitions=take_n, compute=True, warn=False)
                        else:
                            v = res.compute(scheduler=r.get)
                except Exception as e:  # noqa: BLE001
                    from sim.pin import HarnessError

                    if isinstance(e, HarnessError):
                        raise
                    out.violate("compute_raised",
                                f"{wl} on {r.describe()}: {type(e).__name__} at {exc_site(e)}: "
                                f"{str(e)[:300]}", exc_type=type(e).__name__, terminal=term,
                                entry=r.entry)
                    break
                finally:
                    digests.append(r.sim.digest())
                values.append(norm(v))
                if r.entry.startswith("mp"):
                    out.probe("mp_boundary")
                ok = (abs(values[-1] - want) <= 1e-9 * max(1.0, abs(want))) if mode == "float" \
                    else values[-1] == want if mode in ("scalar", "distinct_key") else values[-1] == norm(want)
                if not ok:
                    out.violate("differs_from_python",
                                f"{wl} on {r.describe()}: dask gave {values[-1]!r}, plain Python "
                                f"{want if mode == 'distinct_key' else norm(want)!r}",
                                terminal=term, entry=r.entry)
                    break
    finally:
        shutil.rmtree(spill, ignore_errors=True)
    out.digest = dg(digests)
    out.abstract = tuple((term, r.entry) for r in runs)
    mo = max([r.sim.max_open for r in runs] or [0])
    if mo >= 2:
        out.probe("multi_open")
    out.policy = runs[0].policy if runs else "none"
    out.sim_time = float(sum(r.sim.events for r in runs))
    out.nontrivial = sum(1 for p in parts if p) >= 2 and mo >= 2
    return out

"""C16 — graph manipulation keeps values and changes only keys and ordering.

bind / wait_on / checkpoint / clone on arrays, bags and delayed values built from
instrumented chunk functions; computed under simulated schedules with as many
workers as ready tasks (so that every dependency-respecting execution order is
reachable), with graph optimisation on and off.  Oracle: happens-before between
the tagged chunk executions in the recorded log, values, key disjointness."""
from __future__ import annotations

from sim import schedrun as sr
from sim import taskfns
from sim.core import Outcome, dg, exc_site

META = {
    "level": "exploration",
    "budget": {"quick": {"seconds": 60, "runs": 500},
               "thorough": {"seconds": 900, "runs": 10**9}},
    "rule": ("one evaluation = one scenario in {bind independent, bind dependent+omit, bind shared-omit, wait_on, "
             "checkpoint, clone} over array/bag/delayed collections of 1-6 chunks built from instrumented "
             "chunk functions, split_every in {None,2,3,False}, seed, assume_layers, optimize_graph on/off, "
             "computed under a simulated completion schedule with up to 8 workers; distinct = distinct "
             "(scenario, event digest); non-trivial = >=2 chunks on each side and >=2 jobs open at once"),
    "abstract_measure": "distinct (scenario, collection kind) pairs",
    "gates": {"quick": {"bind": 1500, "wait_on": 800, "checkpoint": 800, "clone": 800, "multi_open": 2500,
                        "order_could_differ": 1000, "blockwise_literal_or_repeated_operand": 200,
                        "prior_call_with_omit": 300},
              "thorough": {"bind": 1500}},
    "anchors": ["dask/graph_manipulation.py", "dask/highlevelgraph.py", "dask/blockwise.py"],
    "real": ["dask.graph_manipulation.bind/wait_on/checkpoint/clone", "dask.array / dask.bag / dask.delayed graph "
             "construction, HighLevelGraph, blockwise fusion and low-level optimisation", "get_async / "
             "threaded.get / multiprocessing.get"],
    "stubbed": ["OS pools -> SimExecutor"],
    "assumptions": ["chunk executions are atomic (E1); ordering is asserted between end of parents' chunk "
                    "functions and start of children's", "dataframe collections are not used here (pyarrow absent)"],
}

KINDS = ("array", "bag", "delayed", "dataframe")


GC_EACH_RUN = True  # see sim/worker.run_tape


def tier_cfg(tier):
    return {"maxchunks": 5 if tier == "quick" else 8}


def setup(cfg):
    import warnings

    from sim import pin

    pin.setup_repo(need_dataframe=True)
    import dask.array  # noqa: F401
    import dask.bag  # noqa: F401

    warnings.filterwarnings("ignore", message="Computing mixed collections")


def base(kind, n, off=0):
    """A collection of n chunks holding small integers (distinct per `off`)."""
    import numpy as np

    import dask
    import dask.array as da
    import dask.bag as db

    if kind == "array":
        return da.from_array(np.arange(off, off + 2 * n), chunks=2)
    if kind == "bag":
        return db.from_sequence(list(range(off, off + 2 * n)), npartitions=n)
    if kind == "dataframe":
        import pandas as pd

        import dask.dataframe as dd

        return dd.from_pandas(pd.DataFrame({"a": np.arange(off, off + 2 * n)}), npartitions=n)
    return [dask.delayed(off + i, name=f"lit-{off}-{i}") for i in range(n)]


def apply(kind, coll, tag, other=None, variant=0):
    """variant (arrays): 1 a positional literal operand, 2 the same array twice --
    Blockwise layers with more index entries than distinct block inputs."""
    import dask

    f = taskfns.M(tag)
    if kind == "array":
        if other is not None:
            return coll.map_blocks(f, other, dtype=coll.dtype)
        if variant == 1:
            return coll.map_blocks(f, 10, dtype=coll.dtype)
        if variant == 2:
            return coll.map_blocks(f, coll, dtype=coll.dtype)
        return coll.map_blocks(f, dtype=coll.dtype)
    if kind == "bag":
        return coll.map_partitions(f)
    if kind == "dataframe":
        return coll.map_partitions(f, meta=coll._meta)
    return [dask.delayed(f, pure=False)(c) for c in coll]


def eager(kind, coll):
    import dask

    if kind == "array":
        return coll.compute(scheduler="sync").tolist()
    if kind == "bag":
        return list(coll.compute(scheduler="sync"))
    if kind == "dataframe":
        return coll.compute(scheduler="sync")["a"].tolist()
    return list(dask.compute(*coll, scheduler="sync"))


def pos(log, tag, phase):
    return [i for i, e in enumerate(log) if e[0] == "chunk" and e[1] == tag and e[2] == phase]


def run_one(tape, cfg):
    import dask
    from dask.graph_manipulation import bind, checkpoint, clone, wait_on

    out = Outcome()
    with tape.span("workload"):
        scen = tape.weighted([(2, "bind_indep"), (2, "bind_dep_omit"), (2, "bind_shared_omit"), (3, "wait_on"),
                              (2, "checkpoint"), (3, "clone")], "scen")
        kind = KINDS[(0, 0, 1, 1, 2, 2, 3)[tape.draw(7, "kind")]]   # dataframes: see known findings
        n1 = 1 + tape.draw(cfg["maxchunks"], "n1")
        n2 = n1 if kind == "array" else 1 + tape.draw(cfg["maxchunks"], "n2")
        split_every = (None, 2, 3, False)[tape.draw(4, "split")]
        seed = (None, 1, "s")[tape.draw(3, "seed")]
        assume_layers = not tape.chance(1, 3, "assume")
        optimize = not tape.chance(1, 3, "noopt")
        variant = tape.draw(3, "variant") if kind == "array" else 0
        prior = tape.chance(1, 3, "prior_omit_call")
    wl = {"scenario": scen, "kind": kind, "n1": n1, "n2": n2, "split_every": split_every, "seed": seed,
          "assume_layers": assume_layers, "optimize_graph": optimize, "variant": variant,
          "prior_omit_call": prior}
    if variant and scen in ("bind_dep_omit", "bind_shared_omit", "clone"):
        out.probe("blockwise_literal_or_repeated_operand")
    out.decoded = wl
    out.wdigest = dg(wl)
    out.abstract = ((scen, kind),)
    out.probe(scen.split("_")[0] if scen.startswith("bind") else scen)
    run = sr.SimRun(tape, num_workers=4 + tape.draw(5, "nw8"), step_cap=40000)
    wl["run"] = run.describe()
    out.policy = run.policy
    taskfns.reset()
    log = taskfns.RUN["log"]
    bkw = {"seed": seed, "assume_layers": assume_layers}

    def compute(*colls):
        flat = []
        for c in colls:
            flat.extend(c if isinstance(c, list) else [c])
        taskfns.RUN["active"] = True
        try:
            with run:
                res = dask.compute(*flat, scheduler=run.get, optimize_graph=optimize)
        finally:
            taskfns.RUN["active"] = False
        outv, i = [], 0
        for c in colls:
            if isinstance(c, list):
                outv.append(list(res[i:i + len(c)]))
                i += len(c)
            else:
                v = res[i]
                if type(v).__name__ == "DataFrame":
                    v = v["a"]
                outv.append(v.tolist() if hasattr(v, "tolist") else list(v))
                i += 1
        return outv

    try:
        if scen.startswith("bind"):
            if scen == "bind_indep":
                P = apply(kind, base(kind, n1, 0), "P")
                CBc = apply(kind, base(kind, n2, 50), "CB")
                C = apply(kind, CBc, "C")
                want = eager(kind, C)
                if prior and kind != "dataframe":
                    # call history: the same collection object was cloned with an omit before
                    if tape.chance(1, 2, "prior_plain"):
                        # ... or cloned as a whole, with the same seed (and no parents)
                        out.probe("prior_plain_clone_same_seed")
                        clone(C, **bkw)
                    else:
                        out.probe("prior_call_with_omit")
                        clone(C, omit=CBc, **bkw)
                C2 = bind(C, P, split_every=split_every, **bkw)
                ctags, ptags, free = ("C", "CB"), ("P",), ()
            elif scen == "bind_dep_omit":
                P = apply(kind, base(kind, n1, 0), "P")
                C = apply(kind, P, "C", variant=variant)
                want = eager(kind, C)
                if prior and kind != "dataframe":
                    out.probe("prior_clone_same_seed_same_omit")
                    clone(C, omit=P, **bkw)
                C2 = bind(C, P, omit=P, split_every=split_every, **bkw)
                ctags, ptags, free = ("C",), ("P",), ()
            else:
                O = apply(kind, base(kind, n1, 0), "O")
                P = apply(kind, O, "P")
                C = apply(kind, O, "C", variant=variant)
                want = eager(kind, C)
                if prior and kind != "dataframe":
                    out.probe("prior_clone_same_seed_same_omit")
                    clone(C, omit=O, **bkw)
                C2 = bind(C, P, omit=O, split_every=split_every, **bkw)
                ctags, ptags, free = ("C",), ("P",), ("O",)
            taskfns.reset()
            log = taskfns.RUN["log"]
            got = compute(C2)[0]
            if got != want:
                out.violate("bind_changes_values", f"{wl}: bound children compute to {got}, unbound {want}")
            else:
                pend = [i for t in ptags for i in pos(log, t, "end")]
                cstart = [i for t in ctags for i in pos(log, t, "start")]
                np_expected = n1
                if len(pend) < np_expected:
                    out.violate("parents_not_executed", f"{wl}: {len(pend)} parent chunk executions, "
                                                        f"expected >= {np_expected}")
                elif not cstart:
                    out.violate("children_not_executed", f"{wl}: no child chunk ran")
                elif max(pend) > min(cstart):
                    out.violate("child_before_parent",
                                f"{wl}: a child chunk started (log #{min(cstart)}) before the last parent "
                                f"chunk ended (log #{max(pend)})")
                if scen == "bind_dep_omit" and len(pend) != n1 and out.status != "violation":
                    out.violate("omitted_parent_recomputed", f"{wl}: parent chunks ran {len(pend)} times, "
                                                             f"expected {n1} (omit=parents)")
            if n1 >= 2 and len(want) >= 2:
                out.probe("order_could_differ")
        elif scen == "wait_on":
            X = apply(kind, base(kind, n1, 0), "X")
            want = eager(kind, apply(kind, X, "D"))
            X2 = wait_on(X, split_every=split_every)
            D = apply(kind, X2, "D")
            taskfns.reset()
            log = taskfns.RUN["log"]
            got = compute(D)[0]
            xend, dstart = pos(log, "X", "end"), pos(log, "D", "start")
            if got != want:
                out.violate("wait_on_changes_values", f"{wl}: {got} != {want}")
            elif len(xend) < n1 or not dstart:
                out.violate("chunks_not_executed", f"{wl}: X ends {len(xend)}, D starts {len(dstart)}")
            elif max(xend) > min(dstart):
                out.violate("consumer_before_wait_on",
                            f"{wl}: a consumer chunk started (log #{min(dstart)}) before every chunk of the "
                            f"waited-on collection had ended (log #{max(xend)})")
            if n1 >= 2:
                out.probe("order_could_differ")
        elif scen == "checkpoint":
            X = apply(kind, base(kind, n1, 0), "X")
            Y = apply(kind, base(kind, n2, 50), "Y")
            two = tape.chance(1, 2, "two")
            ny_expected = n2
            if kind == "array" and n1 >= 2 and tape.chance(3, 4, "y_from_part_of_x"):
                two = True
                # the second input is built from only some of the chunks of the first: the
                # checkpoint still has to wait for every chunk of both
                k = 1 + tape.draw(n1 - 1, "xpart")
                Y = apply(kind, X[: 2 * k], "Y")
                ny_expected = k
                out.probe("checkpoint_input_from_part_of_another")
            cp = checkpoint(X, Y, split_every=split_every) if two else checkpoint(X, split_every=split_every)
            taskfns.reset()
            log = taskfns.RUN["log"]
            taskfns.RUN["active"] = True
            try:
                with run:
                    res = cp.compute(scheduler=run.get, optimize_graph=optimize)
            finally:
                taskfns.RUN["active"] = False
            nx, ny = len(pos(log, "X", "end")), len(pos(log, "Y", "end"))
            if res is not None:
                out.violate("checkpoint_value", f"{wl}: checkpoint computed to {res!r}")
            elif nx != n1 or (two and ny != ny_expected):
                out.violate("checkpoint_skipped_chunks",
                            f"{wl}: checkpoint returned after {nx}/{n1} X chunks and "
                            f"{ny}/{ny_expected if two else 0} Y chunks")
        else:  # clone
            O = apply(kind, base(kind, n1, 0), "O")
            X = apply(kind, O, "X", variant=variant)
            use_omit = tape.chance(1, 2, "omit")
            if prior and kind != "dataframe":
                out.probe("prior_call_with_omit")
                clone(X, omit=O, **bkw)
            Xc = clone(X, omit=O if use_omit else None, **bkw)
            want = eager(kind, X)
            taskfns.reset()
            log = taskfns.RUN["log"]
            got_c, got_x = compute(Xc, X)

            def keys(c):
                from dask.core import flatten

                if isinstance(c, list):
                    return {d.key for d in c}
                return set(flatten(c.__dask_keys__()))

            if got_c != want or got_x != want:
                out.violate("clone_changes_values", f"{wl}: clone {got_c}, original {got_x}, eager {want}")
            elif keys(Xc) & keys(X):
                out.violate("clone_shares_output_keys", f"{wl}: {sorted(map(str, keys(Xc) & keys(X)))[:4]}")
            else:
                nX, nO = len(pos(log, "X", "end")), len(pos(log, "O", "end"))
                if nX != 2 * n1:
                    out.violate("clone_not_independent",
                                f"{wl}: computing clone and original together ran the X chunk function {nX} "
                                f"times, expected {2 * n1}")
                elif nO != (n1 if use_omit else 2 * n1):
                    out.violate("clone_omit_wrong",
                                f"{wl}: O chunk function ran {nO} times (omit={use_omit})")
            if seed is not None and out.status != "violation":
                Xc2 = clone(X, omit=O if use_omit else None, **bkw)
                if keys(Xc2) != keys(Xc):
                    out.violate("clone_seed_not_deterministic", f"{wl}: same seed, different keys")
    except Exception as e:  # noqa: BLE001
        from sim.pin import HarnessError

        if isinstance(e, HarnessError):
            raise
        out.violate("manipulation_raised", f"{wl}: {type(e).__name__} at {exc_site(e)}: {e}",
                    exc_type=type(e).__name__, scenario=scen, kind=kind,
                    rebuilds_collection=scen != "checkpoint", msg_head=str(e)[:60])
    finally:
        taskfns.RUN["active"] = False
    sim = run.sim
    out.digest = sim.digest()
    if sim.max_open >= 2:
        out.probe("multi_open")
    out.sim_time = float(sim.events)
    out.nontrivial = n1 >= 2 and sim.max_open >= 2
    return out

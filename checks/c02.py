"""C02 — each needed task runs exactly once, only needed tasks run, only after
their dependencies finished, with the dependencies' computed values."""
from __future__ import annotations

from checks import c01
from sim import graphgen as gg
from sim import schedrun as sr
from sim.core import Outcome

META = dict(c01.META)
META["rule"] = ("same run space as C01; oracle over the recorded dispatch/execution history "
                "(callback log + instrumented task bodies); distinct = distinct (workload digest, "
                "event-sequence digest); non-trivial = >=3 needed keys and >=2 jobs open at once")
META["gates"] = {"quick": {"multi_open": 100, "unneeded_present": 100},
                 "thorough": {"multi_open": 100}}


def tier_cfg(tier):
    return c01.tier_cfg(tier)


def history_oracle(out, obs, spec, request, vals, calls, deps, needed, entry):
    """Shared with C04 (prefix form) — checks the history of one scheduler call."""
    log = obs.log
    rec = obs.rec
    dsk_seen = rec.dsk or {}
    # -- dispatch level: evaluated against the graph the scheduler was given
    seen_deps = {}
    for k, t in dsk_seen.items():
        seen_deps[k] = set(getattr(t, "dependencies", ()))
    requested = set(gg.flatten_request(request))
    need_seen = set()
    stack = list(requested)
    while stack:
        k = stack.pop()
        if k in need_seen or k not in seen_deps:
            continue
        need_seen.add(k)
        stack.extend(seen_deps[k])
    from dask._task_spec import DataNode

    runnable_seen = {k for k in need_seen if not isinstance(dsk_seen[k], DataNode)}
    pre, post = {}, {}
    for i, e in enumerate(log):
        if e[0] == "cb" and e[1] == "rec":
            if e[2] == "pretask":
                k = e[3]
                if k in pre:
                    return out.violate("dispatched_twice", f"key {k!r} dispatched twice", key=repr(k))
                if k not in runnable_seen:
                    return out.violate("unneeded_dispatched",
                                       f"key {k!r} dispatched but not needed", key=repr(k))
                for d in seen_deps.get(k, ()):
                    if d in runnable_seen and d not in post:
                        return out.violate(
                            "dispatched_before_dependency",
                            f"key {k!r} dispatched before dependency {d!r} finished", key=repr(k))
                pre[k] = i
            elif e[2] == "posttask":
                k = e[3]
                if k in post:
                    return out.violate("finished_twice", f"key {k!r} finished twice", key=repr(k))
                if k not in pre:
                    return out.violate("posttask_without_pretask", f"key {k!r}", key=repr(k))
                post[k] = i
    complete = obs.exc is None
    if complete:
        miss = runnable_seen - set(post)
        if miss:
            return out.violate("needed_not_executed",
                               f"needed keys never finished: {sorted(map(repr, miss))}")
    # -- function level: against the AST (survives fusion/renaming)
    need_tags = {}
    tag_refs = {}
    body_of = {}
    for node in spec["nodes"]:
        if node["kind"] == "task":
            body_of[gg.K(node["key"])] = (node["tag"][0], node["tag"][1])
        if gg.K(node["key"]) in needed:
            for tg in gg.node_call_tags(node):
                need_tags[tg] = gg.K(node["key"])
            tag_refs.update(gg.node_call_refs(node))
    started, ended = {}, {}
    for i, e in enumerate(log):
        if e[0] == "start":
            tg = e[1]
            if tg in started:
                return out.violate("executed_twice", f"task body {tg!r} ran twice", tag=repr(tg))
            if tg not in need_tags:
                return out.violate("unneeded_executed",
                                   f"task body {tg!r} ran but its node is not needed", tag=repr(tg))
            started[tg] = i
            exp = calls.get(tg)
            if exp is None or (e[2], e[3]) != exp:
                return out.violate("wrong_arguments",
                                   f"task body {tg!r} received {e[2]!r} {e[3]!r}, expected {exp!r}",
                                   tag=repr(tg))
            # the body of every task this call site references must have ended before
            for d in tag_refs.get(tg, ()):
                dt = body_of.get(d)
                if dt is not None and dt not in ended:
                    return out.violate(
                        "started_before_dependency_ended",
                        f"body {tg!r} started before dependency body {dt!r} ended",
                        tag=repr(tg))
        elif e[0] == "end":
            ended[e[1]] = i
    if complete:
        miss = set(need_tags) - set(ended)
        if miss:
            return out.violate("needed_not_executed",
                               f"needed task bodies never ran: {sorted(map(repr, miss))}")
    # body executions lie between their key's pretask and posttask (non-fused entries)
    if entry not in ("mp",):
        for node in spec["nodes"]:
            key = gg.K(node["key"])
            if node["kind"] == "task" and key in pre:
                tg = (node["tag"][0], node["tag"][1])
                if tg in started and not (pre[key] < started[tg]
                                          and (key not in post or ended.get(tg, 0) < post[key])):
                    return out.violate("body_outside_pre_post",
                                       f"body of {key!r} not between its pretask and posttask",
                                       key=repr(key))
    return out


def run_one_threads(tape, cfg, out):
    from sim import schedthreads as st

    spec, tcfg, clients, reqs = c01.gen_threads_workload(tape, cfg)
    vals, calls, deps = gg.evaluate(spec)
    obs_list, sched = st.run_threads(tape, spec, clients, tcfg)
    needs = [gg.needed(spec, c["request"], deps) for c in clients]
    c01.threads_outcome(out, obs_list, sched, spec, reqs, tcfg, [len(n) for n in needs])
    if any(len(n) < len(spec["nodes"]) for n in needs):
        out.probe("unneeded_present")
    for i, (obs, c) in enumerate(zip(obs_list, clients)):
        if obs.exc is not None:
            d = sr.describe_exc(obs.exc)
            return out.violate("needed_not_executed_call_raised",
                               f"client {i}: {d['exc_type']} at {d['site']}: {d['msg']}", **d,
                               entry="threads", chunksize=tcfg["chunksize"])
        history_oracle(out, obs, spec, c["request"], vals, calls, deps, needs[i], "threaded")
        if out.status == "violation":
            out.message = f"client {i}: " + out.message
            return out
    return out


def run_one(tape, cfg):
    out = Outcome()
    if c01.use_threads(tape, cfg):
        return run_one_threads(tape, cfg, out)
    spec, req_json, request, rcfg = c01.gen_workload(tape, cfg)
    vals, calls, deps = gg.evaluate(spec)
    needed = gg.needed(spec, request, deps)
    # the caller's result store (cache=<mapping>), pre-seeded with values of some of the graph's literals
    store = None
    if tape.chance(1, 4, "preseeded_cache"):
        store = {gg.K(n["key"]): vals[gg.K(n["key"])] for n in spec["nodes"]
                 if n["kind"] == "data" and tape.chance(1, 2, "seedkey")}
        out.probe("caller_cache_preseeded" if store else "caller_cache_empty")
    obs = sr.run_graph(tape, spec, request, rcfg, extra_kw=None if store is None else {"cache": store})
    c01.base_outcome(out, obs, spec, req_json, rcfg, needed)
    if len(needed) < len(spec["nodes"]):
        out.probe("unneeded_present")
    if obs.exc is not None:
        d = sr.describe_exc(obs.exc)
        return out.violate("needed_not_executed_call_raised",
                           f"{d['exc_type']} at {d['site']}: {d['msg']}", **d,
                           entry=rcfg["entry"], chunksize=rcfg["chunksize"])
    return history_oracle(out, obs, spec, request, vals, calls, deps, needed, rcfg["entry"])

"""C40 — sorting, shuffling and de-duplication keep exactly the right rows.

Runs with the pyarrow stub (dataframe import needs the package; no code path
used here may touch it — a run that does is discarded and counted).  The disk
shuffle runs on real partd files in a per-run scratch directory; every
partition/append, the barrier and every collect is a task of the simulated
executor, so the completion schedule decides their interleaving.  Hidden
computes during graph construction (quantiles for set_index / sort_values) run
under the simulator as well (config scheduler)."""
from __future__ import annotations

import os
import shutil

from sim import schedrun as sr
from sim.core import Outcome, dg, exc_site

META = {
    "level": "exploration",
    "budget": {"quick": {"seconds": 90, "runs": 500},
               "thorough": {"seconds": 1500, "runs": 10**9}},
    "rule": ("one evaluation = one frame (0-40 rows; key column int / string (also with nulls) / float with NaN / categorical "
             "with a permuted category order, ordered or not, also with nulls; duplicates; 1-6 input partitions, some empty) x op in {shuffle, sort_values, set_index, "
             "drop_duplicates, unique, nunique} x npartitions out / split_out x shuffle_method in {tasks with "
             "max_branch 2-3, disk on real partd files} x ascending / na_position, built and computed under one "
             "simulated scheduler (threaded / get_async / multiprocessing boundary / sync) and completion "
             "schedule; distinct = distinct (workload, event digest); non-trivial = >=2 non-empty input "
             "partitions, >=4 rows and >=2 jobs open at once"),
    "abstract_measure": "distinct (op, shuffle_method, key kind) triples",
    "gates": {"quick": {"disk": 1200, "tasks": 1200, "multi_stage_tasks": 300, "empty_partition": 1200,
                        "multi_open": 2000, "na_keys": 500, "cat_nonlexical_order": 400,
                        "aligned_presorted_input": 500, "prior_sort_other_direction": 150},
              "thorough": {"disk": 1200}},
    "anchors": ["dask/dataframe/dask_expr/_shuffle.py", "dask/dataframe/shuffle.py"],
    "real": ["dask.dataframe.dask_expr (from_delayed/from_pandas, Shuffle/TaskShuffle/DiskShuffle, SortValues, "
             "SetIndex, DropDuplicates/Unique/NUnique lowering and optimisation)",
             "dask.dataframe.shuffle (partitioning_index, shuffle_group, maybe_buffered_partd, "
             "ensure_cleanup_on_exception)", "partd.PandasBlocks/Buffer/File on real files",
             "pandas 3.0.5", "get_async / threaded.get / multiprocessing.get"],
    "stubbed": ["pyarrow (absent): permissive import stub, arrow strings disabled "
                "(dataframe.convert-string=False); parquet/arrow code paths cannot run",
                "OS pools -> SimExecutor"],
    "assumptions": ["ties in sort_values are compared as multisets within each key group",
                    "p2p shuffle (distributed) is out of reach"],
}

KEYKINDS = ("int", "str", "float_nan", "cat", "str_na", "cat_na")


GC_EACH_RUN = True  # see sim/worker.run_tape


def tier_cfg(tier):
    return {"maxrows": 24 if tier == "quick" else 60}


def setup(cfg):
    from sim import pin

    pin.setup_repo(need_dataframe=True)
    import pyarrow

    cfg["_pa_touched"] = len(pyarrow.TOUCHED)


def make_frame(tape, cfg):
    import numpy as np
    import pandas as pd

    n = tape.draw(cfg["maxrows"] + 1, "nrows")
    kind = KEYKINDS[tape.draw(len(KEYKINDS), "keykind")]
    card = 1 + tape.draw(6, "card")
    raw = [tape.draw(card, "key") for _ in range(n)]
    if kind == "int":
        k = pd.Series(raw, dtype="int64")
    elif kind == "str":
        # pandas 3 native string dtype (python storage); object dtype would make dask's meta
        # emulation use bare object() placeholders, which is an artefact of the missing pyarrow
        k = pd.Series([f"s{v}" for v in raw], dtype="str")
    elif kind == "str_na":
        k = pd.Series([np.nan if v == 0 else f"s{v}" for v in raw], dtype="str")
    elif kind == "float_nan":
        k = pd.Series([np.nan if v == 0 else v / 2.0 for v in raw], dtype="float64")
    else:
        # category order is a drawn permutation: pandas orders categoricals by category, not by value
        cats = [f"c{i}" for i in range(card)]
        for i in range(card - 1, 0, -1):
            j = tape.draw(i + 1, "catperm")
            cats[i], cats[j] = cats[j], cats[i]
        vals = [np.nan if (kind == "cat_na" and v == 0) else f"c{v}" for v in raw]
        k = pd.Series(pd.Categorical(vals, categories=cats, ordered=tape.chance(1, 2, "ordered")))
        kind = "cat"
    df = pd.DataFrame({"k": k, "w": [tape.draw(3, "w") for _ in range(n)], "v": np.arange(n)})
    if tape.chance(1, 3, "presorted"):
        # input already ordered on the key (duplicates then tend to sit on partition boundaries)
        df = df.sort_values("k", kind="stable", na_position="last").reset_index(drop=True)
        df["v"] = np.arange(n)
    return df, kind


def run_one(tape, cfg):
    import numpy as np
    import pandas as pd
    import pyarrow

    import dask
    import dask.dataframe as dd
    import partd

    out = Outcome()
    with tape.span("workload"):
        df, kind = make_frame(tape, cfg)
        n = len(df)
        nin = 1 + tape.draw(6, "nin")
        # cut points (duplicates give empty partitions)
        cuts = sorted(tape.draw(n + 1, "cut") for _ in range(nin - 1))
        op = ("shuffle", "sort_values", "set_index", "drop_duplicates", "unique", "nunique")[tape.draw(6, "op")]
        method = ("tasks", "disk")[tape.draw(2, "method")]
        nout = 1 + tape.draw(5, "nout")
        max_branch = 2 + tape.draw(2, "mb")
        ascending = not tape.chance(1, 3, "desc")
        na_position = ("last", "first")[tape.draw(2, "napos")]
        on_two = tape.chance(1, 4, "on2")
        subset_all = tape.chance(1, 3, "subset_all")
        # "aligned": input sorted on the key, cut only where the key changes, as many output as input
        # partitions -- the shape dask recognises as already sorted (no shuffle at all)
        mixed_dtype = tape.chance(1, 2, "mixed_dtype")
        aligned = tape.chance(1, 4, "aligned")
        if aligned:
            df = df.sort_values("k", kind="stable", na_position="last").reset_index(drop=True)
            df["v"] = np.arange(n)
            ks = df["k"].astype(object).where(df["k"].notna(), "<NA>").tolist()
            changes = [i for i in range(1, n) if ks[i] != ks[i - 1]]
            cuts = sorted({changes[tape.draw(len(changes), "acut")] for _ in range(nin - 1)}) if changes else []
            nin = len(cuts) + 1
            nout = nin
    if aligned:
        out.probe("aligned_presorted_input")
    bounds = [0] + cuts + [n]
    pieces = [df.iloc[a:b] for a, b in zip(bounds[:-1], bounds[1:])]
    # (only for the hash-partitioned operations, whose partitioning code casts the key to a common
    # dtype for exactly this case; quantile-based divisions of such a frame are the user's problem)
    mixed_dtype = mixed_dtype and op in ("shuffle", "drop_duplicates", "unique", "nunique")
    if kind == "float_nan" and mixed_dtype:
        # partitions whose key column deviates from the (float64) meta: a null-free partition of
        # whole numbers arrives as int64, as it does when every file is parsed on its own
        # (the keys of a null-free partition are rounded up to whole numbers first, in the reference
        # frame too, so that the situation occurs often)
        pieces = [p.assign(k=np.ceil(p["k"])) if len(p) and p["k"].notna().all() else p for p in pieces]
        df = pd.concat(pieces) if pieces else df
        conv = [len(p) and p["k"].notna().all() and (p["k"] == p["k"].round()).all() for p in pieces]
        if any(conv) and not all(conv):
            out.probe("int64_partition_under_float64_meta")
        pieces = [p.astype({"k": "int64"}) if c else p for p, c in zip(pieces, conv)]
    wl = {"mixed_partition_dtypes": bool(kind == "float_nan" and mixed_dtype), "rows": n, "keykind": kind, "keys": [str(x) for x in df["k"].tolist()], "w": df["w"].tolist(),
          "cuts": cuts, "op": op, "method": method, "nout": nout, "max_branch": max_branch,
          "ascending": ascending, "na_position": na_position, "on_two": on_two, "subset_all": subset_all}
    out.decoded = wl
    out.wdigest = dg(wl)
    out.abstract = ((op, method, kind),)
    out.probe(method)
    if any(len(p) == 0 for p in pieces):
        out.probe("empty_partition")
    if df["k"].isna().any():
        out.probe("na_keys")
        if kind != "float_nan":
            out.probe("na_keys_nonnumeric")
    if method == "tasks" and nout > max_branch:
        out.probe("multi_stage_tasks")
    if kind == "cat" and list(df["k"].cat.categories) != sorted(df["k"].cat.categories):
        out.probe("cat_nonlexical_order")
    spill = os.path.abspath("spill")
    shutil.rmtree(spill, ignore_errors=True)
    os.makedirs(spill)
    run = sr.SimRun(tape, step_cap=200000)
    wl["run"] = run.describe()
    out.policy = run.policy
    touched0 = len(pyarrow.TOUCHED)
    problem = None
    try:
        with run, dask.config.set(scheduler=run.get, temporary_directory=spill,
                                  **{"dataframe.shuffle.method": method}):
            meta = df.iloc[:0]
            d = dd.from_delayed([dask.delayed(p) for p in pieces], meta=meta, verify_meta=False)
            on = ["k", "w"] if on_two else "k"
            via_selection = tape.chance(1, 3, "via_selection")
            if via_selection:
                out.probe("partitions_selected_individually")

            def parts_of(r):
                """Output partitions one by one: as delayed objects, or as separate single-partition
                selections of the frame (r.partitions[i]) evaluated in ONE computation."""
                if via_selection:
                    # (the number of partitions that really exist: r.npartitions of a lazy sort can be
                    # larger than what the computed divisions yield)
                    return dask.compute(*[r.partitions[i] for i in range(len(r.to_delayed()))])
                return dask.compute(*r.to_delayed())

            if op == "shuffle":
                r = d.shuffle(on, npartitions=nout, shuffle_method=method, max_branch=max_branch)
                parts = parts_of(r)
                got = pd.concat(parts) if parts else df.iloc[:0]
                if kind == "float_nan" and mixed_dtype:
                    got = got.astype({"k": "float64"})   # partitions may carry the key as int64
                if sorted(got["v"].tolist()) != list(range(n)) or not got.sort_values("v").reset_index(
                        drop=True).equals(df.sort_values("v").reset_index(drop=True)):
                    problem = ("shuffle_rows_changed", f"multiset of rows changed: got v={sorted(got['v'].tolist())}")
                else:
                    keycols = ["k", "w"] if on_two else ["k"]
                    seen = {}
                    for i, p in enumerate(parts):
                        for key in set(map(tuple, p[keycols].astype(object).where(
                                p[keycols].notna(), "<NA>").values.tolist())):
                            if key in seen and seen[key] != i:
                                problem = ("key_in_two_partitions",
                                           f"rows with key {key} are in output partitions {seen[key]} and {i}")
                            seen[key] = i
            elif op == "sort_values":
                by = ["k", "w"] if on_two else "k"
                if tape.chance(1, 2 if aligned else 4, "prior"):
                    # call history: the same frame was sorted in the other direction just before
                    # (quantile divisions are cached per process)
                    out.probe("prior_sort_other_direction")
                    r0 = d.sort_values(by, npartitions=nout, ascending=not ascending, na_position=na_position,
                                       shuffle_method=method)
                    dask.compute(*r0.to_delayed())
                r = d.sort_values(by, npartitions=nout, ascending=ascending, na_position=na_position,
                                  shuffle_method=method)
                # partition by partition: .compute() of the whole frame may be optimised into a
                # single-partition sort, which would hide the partitioned sort
                parts = parts_of(r)
                got = pd.concat(parts) if parts else df.iloc[:0]
                want = df.sort_values(by, ascending=ascending, na_position=na_position, kind="stable")
                gk = got["k"].astype(object).where(got["k"].notna(), "<NA>").tolist()
                wk = want["k"].astype(object).where(want["k"].notna(), "<NA>").tolist()
                if gk != wk:
                    problem = ("sort_order", f"sorted keys (partitions concatenated) {gk} != pandas {wk}")
                elif on_two and got["w"].tolist() != want["w"].tolist():
                    problem = ("sort_order", f"second sort column {got['w'].tolist()} != pandas "
                                             f"{want['w'].tolist()} (keys {gk})")
                elif sorted(got["v"].tolist()) != list(range(n)):
                    problem = ("sort_rows_changed", f"rows changed: v={sorted(got['v'].tolist())}")
                else:
                    # same rows within each key group
                    g1 = got.assign(kk=gk).groupby("kk")["v"].apply(lambda s: sorted(s)).to_dict()
                    g2 = want.assign(kk=wk).groupby("kk")["v"].apply(lambda s: sorted(s)).to_dict()
                    if g1 != g2:
                        problem = ("sort_rows_changed", "rows moved between key groups")
            elif op == "set_index":
                if kind == "cat" and df["k"].isna().any():
                    # no reference: pandas' own sort_index of a CategoricalIndex puts nulls first or last
                    # depending on the category order
                    out.status = "discard"
                    return out
                r = d.set_index("k", npartitions=nout, shuffle_method=method)
                parts = parts_of(r)
                got = pd.concat(parts) if parts else None
                want = df.set_index("k").sort_index(kind="stable")      # nulls last, as in dask

                def ilist(f):
                    ser = pd.Series(f.index)
                    return ser.astype(object).where(ser.notna(), "<NA>").tolist()

                if got is None or ilist(got) != ilist(want):
                    problem = ("set_index_order", f"index {None if got is None else ilist(got)} != "
                                                  f"pandas {ilist(want)}")
                elif sorted(got["v"].tolist()) != list(range(n)):
                    problem = ("set_index_rows_changed", f"v={sorted(got['v'].tolist())}")
                else:
                    g1 = got.groupby(level=0, dropna=False)["v"].apply(lambda s: sorted(s)).to_dict()
                    g2 = want.groupby(level=0, dropna=False)["v"].apply(lambda s: sorted(s)).to_dict()
                    g1 = {("<NA>" if pd.isna(a) else a): b for a, b in g1.items()}
                    g2 = {("<NA>" if pd.isna(a) else a): b for a, b in g2.items()}
                    if g1 != g2:
                        problem = ("set_index_rows_changed", "rows moved between index values")
                    if r.known_divisions and problem is None and kind != "cat":
                        divs = r.divisions
                        last = len(parts) - 1
                        for i, p in enumerate(parts):
                            # [d_i, d_i+1) for inner partitions, closed for the last one
                            if len(p) and (p.index.min() < divs[i] or p.index.max() > divs[i + 1]
                                           or (i < last and p.index.max() == divs[i + 1])):
                                problem = ("divisions_untruthful", f"partition {i} index range "
                                                                   f"[{p.index.min()}, {p.index.max()}] outside "
                                                                   f"divisions {divs[i]}..{divs[i + 1]}")
            elif op == "drop_duplicates":
                subset = None if subset_all else ["k"]
                base = d[["k", "w"]] if subset_all else d
                pbase = df[["k", "w"]] if subset_all else df
                r = base.drop_duplicates(subset=subset, split_out=nout, shuffle_method=method)
                got = r.compute()
                want = pbase.drop_duplicates(subset=subset)
                cols = ["k", "w"] if subset_all else ["k"]

                def keyset(f):
                    return sorted(map(tuple, f[cols].astype(object).where(f[cols].notna(), "<NA>")
                                      .values.tolist()), key=repr)

                if keyset(got) != keyset(want):
                    problem = ("drop_duplicates_mismatch", f"{keyset(got)} != pandas {keyset(want)}")
                elif not subset_all and not set(got["v"]).issubset(set(df["v"])):
                    problem = ("drop_duplicates_invented_rows", "returned rows that are not in the input")
            elif op == "unique":
                got = d["k"].unique(split_out=nout, shuffle_method=method).compute()
                a = sorted(pd.Series(got).astype(object).where(pd.Series(got).notna(), "<NA>").tolist(), key=repr)
                wu = pd.Series(df["k"].unique())
                b = sorted(wu.astype(object).where(wu.notna(), "<NA>").tolist(), key=repr)
                if a != b:
                    problem = ("unique_mismatch", f"{a} != pandas {b}")
            else:
                got = d["k"].nunique(split_out=nout).compute() if nout > 1 else d["k"].nunique().compute()
                want = df["k"].nunique()
                if int(got) != int(want):
                    problem = ("nunique_mismatch", f"{got} != pandas {want}")
    except Exception as e:  # noqa: BLE001
        from sim.pin import HarnessError

        if isinstance(e, HarnessError):
            raise
        if len(pyarrow.TOUCHED) > touched0:
            out.status = "discard"
            out.info["stub_touched"] = 1
            return out
        problem = ("dataframe_raised", f"{type(e).__name__} at {exc_site(e)}: {str(e)[:300]}",
                   type(e).__name__)
    finally:
        shutil.rmtree(spill, ignore_errors=True)
        del partd.file.cleanup_files[:]
    if len(pyarrow.TOUCHED) > touched0:
        out.info["stub_touched"] = 1
    sim = run.sim
    out.digest = sim.digest()
    if sim.max_open >= 2:
        out.probe("multi_open")
    out.sim_time = float(sim.events)
    out.nontrivial = sum(1 for p in pieces if len(p)) >= 2 and n >= 4 and sim.max_open >= 2
    if problem:
        extra = {"exc_type": problem[2]} if len(problem) > 2 else {}
        out.violate(problem[0], f"{problem[1]} ({wl})", op=op, method=method, keykind=kind, **extra)
    return out

"""C14 — compute, persist and optimize preserve structure and values,
independently of the local scheduler, the completion schedule and optimize_graph."""
from __future__ import annotations

import dataclasses
import operator
from collections import OrderedDict, namedtuple

from sim import schedrun as sr
from sim.core import Outcome, dg, exc_site

META = {
    "level": "exploration",
    "budget": {"quick": {"seconds": 75, "runs": 1000},
               "thorough": {"seconds": 900, "runs": 10**9}},
    "rule": ("one evaluation = one tape-generated nested structure (list/tuple/set/dict/OrderedDict/dataclass/"
             "namedtuple/iterator, collections as dict keys, plain leaves) holding delayed/array/bag collections "
             "that share intermediates, passed to dask.compute (traverse on/off, optimize_graph on/off) under two "
             "different scheduler choices {sync, Executor instance, threaded, multiprocessing (cloudpickle), "
             "get_async} and simulated schedules, plus dask.persist and dask.optimize followed by a compute "
             "under a third schedule; distinct = distinct (structure, event digests); non-trivial = >=2 "
             "collections and >=2 jobs open at once"),
    "abstract_measure": "distinct (op, scheduler kind) pairs",
    "gates": {"quick": {"executor_instance": 800, "mp_boundary": 800, "persist": 1000, "optimize": 1000,
                        "traverse_off": 800, "multi_open": 3000},
              "thorough": {"persist": 1000}},
    "anchors": ["dask/base.py", "dask/_expr.py"],
    "real": ["dask.base.compute / persist / optimize / unpack_collections / get_scheduler / collections_to_expr",
             "dask._expr (HLGExpr, finalize, optimisation of array/bag/delayed collections)",
             "get_async / threaded.get / multiprocessing.get"],
    "stubbed": ["OS pools -> SimExecutor"],
    "assumptions": ["dataframe collections run with the pyarrow import stub (no arrow strings/parquet)",
                    "floating values are exact "
                    "because every scheduler runs the same graph"],
}

Pair = namedtuple("Pair", ["left", "right"])


@dataclasses.dataclass
class Box:
    a: object
    b: object = 3


@dataclasses.dataclass
class KBox:
    a: object
    b: object = dataclasses.field(default=3, kw_only=True)


class MyList(list):
    """A list subclass: a non-collection leaf for dask.compute (it is not traversed)."""


GC_EACH_RUN = True  # see sim/worker.run_tape


def tier_cfg(tier):
    return {"maxdepth": 3}


def setup(cfg):
    import warnings

    from sim import pin

    pin.setup_repo(need_dataframe=True)
    import dask.array  # noqa: F401
    import dask.bag  # noqa: F401

    # mixing expression-backed (dataframe) and graph-backed collections in one call is
    # legal and only warns
    warnings.filterwarnings("ignore", message="Computing mixed collections")


class Gen:
    """Builds (structure with collections, expected structure) pairs."""

    def __init__(self, tape):
        import numpy as np

        import dask
        import dask.array as da
        import dask.bag as db

        self.tape, self.np, self.dask, self.da, self.db = tape, np, dask, da, db
        self.ncoll = 0
        self.iters = {}
        self.desc = []
        self.base_arr = None

    def collection(self):
        t, np, dask, da, db = self.tape, self.np, self.dask, self.da, self.db
        kind = t.draw(15, "ckind") % 8          # kinds 0..6 twice as likely as kind 7
        self.ncoll += 1
        if kind == 7:
            # a legacy collection with no output keys over a non-empty graph: computes to []
            k = t.draw(5, "zk")
            name = f"verif-zero-bag-{k}"
            self.desc.append(["zero-partition-bag", k])
            return db.Bag({(name, 0): [k, k + 1]}, name, 0), []
        if kind == 6:
            n, p, k = 1 + t.draw(7, "bn"), 1 + t.draw(3, "bp"), t.draw(5, "bk")
            seq = [i * 3 + k for i in range(n)]
            self.desc.append(["bag-item", n, p, k])
            return db.from_sequence(seq, npartitions=p).sum(), sum(seq)
        if kind >= 4:
            # dataframe collections (expression-backed; pyarrow is an import stub here)
            import pandas as pd

            import dask.dataframe as dd

            n, p, k = 2 + t.draw(6, "dn"), 1 + t.draw(3, "dp"), t.draw(5, "dk")
            pdf = pd.DataFrame({"a": [i * 2 + k for i in range(n)], "b": [float(i % 3) for i in range(n)]})
            ddf = dd.from_pandas(pdf, npartitions=p)
            if kind == 4:
                self.desc.append(["dataframe", n, p, k])
                return ddf.assign(c=ddf.a + 1), pdf.assign(c=pdf.a + 1)
            self.desc.append(["df-sum", n, p, k])
            return ddf.a.sum(), pdf.a.sum()
        if kind == 0:
            a, b = t.draw(50, "da"), t.draw(50, "db")
            d = dask.delayed(operator.add)(dask.delayed(operator.mul)(a, 2), b)
            self.desc.append(["delayed", a, b])
            return d, a * 2 + b
        if kind == 1:
            n, c, k = 2 + t.draw(6, "an"), 1 + t.draw(3, "ac"), 1 + t.draw(5, "ak")
            x = np.arange(n) * k
            arr = (da.from_array(x, chunks=c) + 1) * 2
            self.desc.append(["array", n, c, k])
            return arr, (x + 1) * 2
        if kind == 2:
            # arrays sharing an intermediate (computed together they share keys)
            if self.base_arr is None:
                x = np.arange(6)
                self.base_arr = (da.from_array(x, chunks=2) + 10, x + 10)
            bx, ex = self.base_arr
            k = 1 + t.draw(4, "sk")
            self.desc.append(["shared-array", k])
            return (bx * k).sum(), (ex * k).sum()
        n, p, k = 1 + t.draw(7, "bn"), 1 + t.draw(3, "bp"), t.draw(5, "bk")
        seq = [i * 3 + k for i in range(n)]
        bag = db.from_sequence(seq, npartitions=p).map(operator.add, 1)
        self.desc.append(["bag", n, p, k])
        return bag, [s + 1 for s in seq]

    def leaf(self):
        r = self.tape.draw(4, "leaf")
        v = (7, "text", None, 2.5)[r]
        return v, v

    def node(self, depth):
        t = self.tape
        if depth >= 3 or t.draw(3, "isleaf") == 0:
            if t.draw(4, "coll") != 0:
                return self.collection()
            return self.leaf()
        kind = t.draw(13, "skind")
        n = 1 + t.draw(3, "n")
        if kind == 12:
            # a generator that builds a fresh temporary record per element (the records die as soon as
            # they are unpacked, so their addresses are reused)
            m = 3 + t.draw(4, "gn")
            items = [self.node(depth + 1) for _ in range(m)]
            xs, es = [i[0] for i in items], [i[1] for i in items]
            self.desc.append(["struct", 12, m])
            gen = ([x, j] if j % 2 else (x, j) for j, x in enumerate(xs))
            self.iters[id(gen)] = xs
            return gen, [[e, j] if j % 2 else (e, j) for j, e in enumerate(es)]
        if kind == 10:
            # dict whose key is, or contains, a (hashable) collection; dict keys are traversed too
            a, b = t.draw(50, "da"), t.draw(50, "db")
            d = self.dask.delayed(operator.add)(self.dask.delayed(operator.mul)(a, 2), b)
            val = a * 2 + b
            form = t.draw(3, "keyform")
            x, e = self.node(depth + 1)
            self.desc.append(["struct", 10, form])
            self.desc.append(["delayed", a, b])
            if form == 0:
                return {d: x}, {val: e}
            if form == 1:
                return {(d, "left"): x}, {(val, "left"): e}
            return {Pair(d, "p"): x}, {Pair(val, "p"): e}
        if kind == 11:
            # two collections of different types that share their key: a bag Item and its Delayed
            n, p, k = 1 + t.draw(7, "bn"), 1 + t.draw(3, "bp"), t.draw(5, "bk")
            seq = [i * 3 + k for i in range(n)]
            item = self.db.from_sequence(seq, npartitions=p).sum()
            d = item.to_delayed()
            self.desc.append(["struct", 11, n, p, k])
            if t.draw(2, "twinorder"):
                return [item, d], [sum(seq), sum(seq)]
            return (d, item), (sum(seq), sum(seq))
        if kind == 8:
            # a list-subclass leaf alone in a tuple/list, next to a collection
            x, e = self.collection()
            leaf = MyList([1, t.draw(5, "ml")])
            self.desc.append(["struct", 8, 2])
            wrap = (leaf,) if t.draw(2, "mlw") else [leaf]
            return [wrap, x], [type(wrap)([MyList(leaf)]), e]
        if kind == 9:
            (x0, e0), (x1, e1) = self.node(depth + 1), self.node(depth + 1)
            self.desc.append(["struct", 9, 2])
            return KBox(x0, b=x1), KBox(e0, b=e1)
        if kind == 7:
            # set of hashable things: a delayed value and a plain leaf (arrays/bags are unhashable)
            self.ncoll += 1
            a, b = t.draw(50, "da"), t.draw(50, "db")
            d = self.dask.delayed(operator.add)(self.dask.delayed(operator.mul)(a, 2), b)
            self.desc.append(["struct", 7, 1])
            self.desc.append(["delayed", a, b])
            return {d, 5}, {a * 2 + b, 5}
        if kind in (4, 5):
            n = 2                        # exactly the two field values (an iterator is single-use)
        items = [self.node(depth + 1) for _ in range(n)]
        xs, es = [i[0] for i in items], [i[1] for i in items]
        self.desc.append(["struct", kind, n])
        if kind == 0:
            return xs, es
        if kind == 1:
            return tuple(xs), tuple(es)
        if kind == 2:
            return {f"k{i}": x for i, x in enumerate(xs)}, {f"k{i}": e for i, e in enumerate(es)}
        if kind == 3:
            return (OrderedDict((f"o{i}", x) for i, x in enumerate(xs)),
                    OrderedDict((f"o{i}", e) for i, e in enumerate(es)))
        if kind == 4:
            return Box(xs[0], xs[-1]), Box(es[0], es[-1])
        if kind == 5:
            return Pair(xs[0], xs[-1]), Pair(es[0], es[-1])
        it = iter(xs)                # kind 6: iterators are consumed and returned as lists
        self.iters[id(it)] = xs
        return it, es

    def count(self, obj):
        """Collections actually present in a generated structure (does not consume iterators)."""
        if self.dask.is_dask_collection(obj):
            return 1
        if id(obj) in self.iters:
            return sum(self.count(o) for o in self.iters[id(obj)])
        if isinstance(obj, dict):
            return sum(self.count(k) + self.count(v) for k, v in obj.items())
        if isinstance(obj, MyList):
            return 0
        if isinstance(obj, (list, tuple, set)):
            return sum(self.count(o) for o in obj)
        if dataclasses.is_dataclass(obj) and not isinstance(obj, type):
            return sum(self.count(getattr(obj, f.name)) for f in dataclasses.fields(obj))
        return 0


def same(np, a, b):
    if type(a) is not type(b) and not (isinstance(a, np.generic) or isinstance(b, np.generic)):
        if not (isinstance(a, (int, float)) and isinstance(b, (int, float))):
            return False
    if isinstance(a, np.ndarray):
        return isinstance(b, np.ndarray) and a.dtype == b.dtype and a.shape == b.shape and bool((a == b).all())
    if type(a).__name__ in ("DataFrame", "Series") and hasattr(a, "equals"):
        return type(a) is type(b) and a.equals(b)
    if isinstance(a, dict):
        return len(a) == len(b) and all(same(np, ka, kb) and same(np, va, vb)
                                        for (ka, va), (kb, vb) in zip(a.items(), b.items()))
    if isinstance(a, (list, tuple)):
        return len(a) == len(b) and all(same(np, x, y) for x, y in zip(a, b))
    if isinstance(a, (set, frozenset)):
        return a == b
    if dataclasses.is_dataclass(a):
        return same(np, dataclasses.astuple(a), dataclasses.astuple(b))
    return a == b


def meta_of(c):
    n = type(c).__name__
    if n == "Array":
        return ("Array", c.chunks, str(c.dtype), c.shape)
    if n == "Bag":
        return ("Bag", c.npartitions)
    if n in ("DataFrame", "Series") and hasattr(c, "_meta"):
        m = c._meta
        cols = tuple(getattr(m, "columns", ())) or getattr(m, "name", None)
        return (n, cols, str(getattr(m, "dtypes", getattr(m, "dtype", ""))))
    return (n,)


def skeleton(dask, obj):
    """The nesting of a structure with every collection reduced to (type, metadata)."""
    if dask.is_dask_collection(obj):
        return ("coll",) + meta_of(obj)
    if isinstance(obj, MyList):
        return ("leaf", "MyList", list(obj))
    if isinstance(obj, dict):
        return (type(obj).__name__, [(skeleton(dask, k), skeleton(dask, v)) for k, v in obj.items()])
    if isinstance(obj, (list, tuple)):
        return (type(obj).__name__, [skeleton(dask, o) for o in obj])
    if isinstance(obj, (set, frozenset)):
        return (type(obj).__name__, sorted(repr(skeleton(dask, o)) for o in obj))
    if dataclasses.is_dataclass(obj) and not isinstance(obj, type):
        return (type(obj).__name__, [skeleton(dask, getattr(obj, f.name)) for f in dataclasses.fields(obj)])
    return ("leaf", repr(obj))


def run_one(tape, cfg):
    import numpy as np

    import dask

    out = Outcome()
    g = Gen(tape)
    with tape.span("structure"):
        nargs = 1 + tape.draw(3, "nargs")
        args, exps = [], []
        for _ in range(nargs):
            x, e = g.node(0)
            args.append(x)
            exps.append(e)
        op = tape.weighted([(3, "compute"), (2, "persist"), (2, "optimize")], "op")
        traverse = not tape.chance(1, 4, "traverse_off")
        optimize_graph = not tape.chance(1, 3, "noopt")
        fuse_delayed = tape.chance(1, 4, "fuse_delayed")      # config optimization.fuse.delayed
    if fuse_delayed:
        out.probe("config_fuse_delayed")
    if any(d[:2] in (["struct", 6], ["struct", 12]) for d in g.desc):
        op = "compute"   # persist/optimize would consume an iterator before the follow-up compute
    if any(d[:2] == ["struct", 12] for d in g.desc):
        out.probe("generator_of_temporary_records")
    wl = {"desc": g.desc, "nargs": nargs, "op": op, "traverse": traverse, "optimize_graph": optimize_graph,
          "fuse_delayed": fuse_delayed}
    out.decoded = wl
    g.ncoll = sum(g.count(a) for a in args)      # what is really inside the arguments
    if g.ncoll == 0:
        out.status = "discard"           # nothing to compute: dask returns the arguments untouched
        return out
    out.wdigest = dg(wl)
    out.probe(op)
    if not traverse:
        out.probe("traverse_off")
    digests, runs = [], []
    has_iter = any(d[:2] in (["struct", 6], ["struct", 12]) for d in g.desc)

    def sched(i):
        """(scheduler argument, SimRun or None)"""
        k = tape.draw(5, f"sched{i}")
        if k == 0:
            return "sync", None
        r = sr.SimRun(tape, entry=("threaded", "async", "mp", "mp_noopt", "threaded")[k] if k != 4 else "async")
        runs.append(r)
        if k == 4:
            out.probe("executor_instance")
            return r.sim.executor, r       # the Executor branch of get_scheduler
        if r.entry.startswith("mp"):
            out.probe("mp_boundary")
        return r.get, r

    def with_run(r, fn):
        if r is None:
            return fn()
        with r:
            v = fn()
        digests.append(r.sim.digest())
        return v

    cfgctx = dask.config.set({"optimization.fuse.delayed": True}) if fuse_delayed else None
    try:
        if op == "compute":
            if has_iter and True:
                # an iterator can only be consumed once: a single compute call
                s, r = sched(0)
                res = with_run(r, lambda: dask.compute(*args, traverse=traverse, scheduler=s,
                                                       optimize_graph=optimize_graph))
                results = [res]
            else:
                results = []
                for i in range(2):
                    s, r = sched(i)
                    results.append(with_run(r, lambda: dask.compute(
                        *args, traverse=traverse, scheduler=s,
                        optimize_graph=(optimize_graph if i == 0 else not optimize_graph))))
            for res in results:
                if traverse:
                    if not same(np, list(res), exps):
                        out.violate("compute_structure_or_value",
                                    f"compute{tuple(args)!r} -> {res!r}, expected {tuple(exps)!r}", op=op)
                        break
                else:
                    for a, e, got in zip(args, exps, res):
                        if dask.is_dask_collection(a):
                            if not same(np, got, e):
                                out.violate("compute_structure_or_value",
                                            f"traverse=False: {a!r} -> {got!r}, expected {e!r}", op=op)
                        elif got is not a:
                            out.violate("traverse_false_touched_argument",
                                        f"traverse=False returned {got!r} for non-collection argument {a!r}",
                                        op=op)
        else:
            if has_iter:
                out.status = "discard"   # persist/optimize would consume the iterator before the re-compute
                return out
            s, r = sched(0)
            if op == "persist":
                res = with_run(r, lambda: dask.persist(*args, traverse=traverse, scheduler=s,
                                                       optimize_graph=optimize_graph))
            else:
                res = dask.optimize(*args, traverse=traverse)
            # same structure, same collection types and metadata
            from dask.base import unpack_collections

            before, _ = unpack_collections(*args, traverse=traverse)
            after, _ = unpack_collections(*res, traverse=traverse)
            if len(before) != len(after):
                out.violate(f"{op}_structure", f"{len(before)} collections in, {len(after)} out", op=op)
            elif traverse and skeleton(dask, list(res)) != skeleton(dask, list(args)):
                out.violate(f"{op}_structure", f"{op}{tuple(args)!r} -> {tuple(res)!r}: nesting or collection "
                                               f"types/metadata differ", op=op)
            elif not traverse and [skeleton(dask, a) if dask.is_dask_collection(a) else id(a) for a in args] != \
                    [skeleton(dask, a) if dask.is_dask_collection(a) else id(a) for a in res]:
                out.violate(f"{op}_structure", f"traverse=False: {op}{tuple(args)!r} -> {tuple(res)!r}", op=op)
            else:
                for b, a in zip(before, after):
                    if meta_of(b) != meta_of(a):
                        out.violate(f"{op}_metadata", f"{meta_of(b)} became {meta_of(a)}", op=op)
                        break
            if out.status != "violation":
                s2, r2 = sched(1)
                val = with_run(r2, lambda: dask.compute(*res, traverse=traverse, scheduler=s2))
                if traverse:
                    okv = same(np, list(val), exps)
                else:
                    okv = all(same(np, got, e) for a, e, got in zip(args, exps, val)
                              if dask.is_dask_collection(a))
                if not okv:
                    out.violate(f"{op}_changes_values", f"{op}(...) then compute -> {val!r}, expected "
                                                        f"{tuple(exps)!r}", op=op)
    except Exception as e:  # noqa: BLE001
        from sim.pin import HarnessError

        if isinstance(e, HarnessError):
            raise
        out.violate("raised", f"{op}: {type(e).__name__} at {exc_site(e)}: {e} ({wl})",
                    exc_type=type(e).__name__, op=op)
    finally:
        if cfgctx is not None:
            cfgctx.__exit__(None, None, None)
    out.digest = dg(digests)
    out.abstract = tuple((op, r.entry) for r in runs) or ((op, "sync"),)
    mo = max([r.sim.max_open for r in runs] or [0])
    if mo >= 2:
        out.probe("multi_open")
    out.policy = runs[0].policy if runs else "sync"
    out.sim_time = float(sum(r.sim.events for r in runs))
    out.nontrivial = g.ncoll >= 2 and mo >= 2
    return out

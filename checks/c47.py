"""C47 (partial: CSV only) — DataFrame file round trips preserve data.

to_csv / read_csv run against SimFS under simulated schedulers.  In single_file
mode the appends of different partitions are separate tasks ordered only by the
depend_on chain, so a completion schedule that writes partition 3 before
partition 2 exists unless the chain is intact.  Block reads are concurrent
tasks.  An I/O-error run class injects an OSError at the k-th open/read/write.
Parquet cannot run here (pyarrow absent) and is not claimed."""
from __future__ import annotations

import io

from sim import schedrun as sr
from sim import simfs
from sim.core import Outcome, dg, exc_site

META = {
    "level": "exploration",
    "budget": {"quick": {"seconds": 90, "runs": 600},
               "thorough": {"seconds": 1500, "runs": 10**9}},
    "rule": ("one evaluation = one frame (int / exact float / string with commas, quotes and - without blocksize - "
             "newlines / datetime / NA; 0-24 rows; 1-5 partitions) written with to_csv (single_file or one file "
             "per partition, name_function, header_first_partition_only, index on/off) to SimFS and read back "
             "with read_csv(blocksize from a few bytes up or None), both under simulated schedulers/completion "
             "schedules; run class io_error injects an OSError at the k-th open/read/write; distinct = distinct "
             "(workload, event digests); non-trivial = >=2 non-empty partitions and >=2 jobs open at once or a "
             "fault fired"),
    "abstract_measure": "distinct (layout, blocksize class) pairs",
    "gates": {"quick": {"single_file": 1000, "multi_file": 1000, "small_blocksize": 800, "multi_open": 1500,
                        "io_error": 150, "quoted_field": 500, "read_names_header": 500,
                        "empty_first_partition": 200, "stale_target_files": 1000},
              "thorough": {"single_file": 1000}},
    "anchors": ["dask/dataframe/io/csv.py", "dask/bytes/core.py"],
    "real": ["dask.dataframe.io.csv.to_csv/_write_csv/read_csv/text_blocks_to_pandas/pandas_read_text",
             "dask.bytes.core.read_bytes", "fsspec open_file(s)/OpenFile/TextIOWrapper", "pandas to_csv/read_csv",
             "get_async / threaded.get / sync"],
    "stubbed": ["file system -> SimFS", "pyarrow import stub (parquet NOT exercised, not claimed)",
                "OS pools -> SimExecutor"],
    "assumptions": ["the read oracle is pandas.read_csv of the same file text (pandas' default float parser is "
                    "not round-trip exact); floats are multiples of 1/8", "embedded newlines only with "
                    "blocksize=None (block splitting cannot see quotes, as documented)",
                    "no NA in integer columns (dtype inference from the sample is a documented limitation)"],
}

STRS = ["plain", "with,comma", 'with"quote', "two words", "x", "end,\"both\"", "multi\nline"]


GC_EACH_RUN = True  # see sim/worker.run_tape


def tier_cfg(tier):
    return {"maxrows": 16 if tier == "quick" else 40}


def setup(cfg):
    from sim import pin

    pin.setup_repo(need_dataframe=True)
    simfs.install()


def make_frame(tape, cfg, allow_newline):
    import numpy as np
    import pandas as pd

    n = tape.draw(cfg["maxrows"] + 1, "nrows")
    cols = {}
    cols["i"] = pd.Series([tape.draw(100, "i") - 50 for _ in range(n)], dtype="int64")
    f = [tape.draw(64, "f") / 8.0 for _ in range(n)]
    if tape.chance(1, 2, "fna"):
        f = [np.nan if tape.draw(5, "fn") == 0 else v for v in f]
    cols["f"] = pd.Series(f, dtype="float64")
    pool = STRS if allow_newline else STRS[:-1]
    s = [pool[tape.draw(len(pool), "s")] for _ in range(n)]
    cols["s"] = pd.Series(s, dtype="str")
    if tape.chance(1, 2, "dt"):
        cols["d"] = pd.Series(pd.to_datetime([f"2021-01-{1 + tape.draw(28, 'dd'):02d}" for _ in range(n)]))
    return pd.DataFrame(cols)


def run_one(tape, cfg):
    import numpy as np
    import pandas as pd

    import dask
    import dask.dataframe as dd

    out = Outcome()
    simfs.reset()
    with tape.span("workload"):
        blocksize = None if tape.draw(4, "bsnone") == 0 else (8, 16, 33, 64, 200, 4000)[tape.draw(6, "bs")]
        df = make_frame(tape, cfg, allow_newline=blocksize is None)
        n = len(df)
        nparts = 1 + tape.draw(5, "nparts")
        single = tape.chance(1, 2, "single")
        index = tape.chance(1, 3, "index")
        hfpo = (not single) and tape.chance(1, 3, "hfpo")
        namefn = (not single) and tape.chance(1, 3, "namefn")
        klass = "io_error" if tape.draw(6, "klass") == 0 else "fault_free"
        # partitions cut at drawn positions (equal cuts give empty partitions, also the first one);
        # stale, longer files already present at the target paths
        cut_parts = n > 0 and tape.chance(1, 3, "cut_parts")
        if n > 0 and tape.chance(1, 8, "many_parts"):
            # more than ten part files: their names must still sort in partition order
            nparts, cut_parts = 11 + tape.draw(3, "np11"), True
        cuts = sorted(tape.draw(n + 1, "cut") for _ in range(nparts - 1)) if cut_parts else []
        stale = tape.chance(1, 3, "stale")
    wl = {"cuts": cuts if cut_parts else None, "stale_files": stale, "rows": n, "frame": df.astype(str).values.tolist(), "columns": list(df.columns), "nparts": nparts,
          "single_file": single, "index": index, "header_first_partition_only": hfpo, "name_function": namefn,
          "blocksize": blocksize, "class": klass}
    out.decoded = wl
    out.wdigest = dg(wl)
    out.klass = klass
    out.probe("single_file" if single else "multi_file")
    if blocksize is not None and blocksize <= 64:
        out.probe("small_blocksize")
    if n and df["s"].str.contains('[,"\n]').any():
        out.probe("quoted_field")
    out.abstract = (("single" if single else "multi",
                     "none" if blocksize is None else ("small" if blocksize <= 64 else "large")),)
    if cut_parts:
        bounds = [0] + cuts + [n]
        pieces = [df.iloc[a:b] for a, b in zip(bounds[:-1], bounds[1:])]
        d = dd.from_delayed([dask.delayed(p) for p in pieces], meta=df.iloc[:0], verify_meta=False)
        parts_pd = pieces
        if any(len(p) == 0 for p in pieces):
            out.probe("empty_partition")
            if len(pieces[0]) == 0:
                out.probe("empty_first_partition")
    else:
        d = dd.from_pandas(df, npartitions=nparts, sort=False) if n else \
            dd.from_pandas(df, npartitions=1)
        parts_pd = [p for p in dask.compute(*d.to_delayed(), scheduler="sync")]
    # default part names are zero-padded to the width of the largest number (fsspec), so that they
    # sort in partition order
    import math

    width = max(1, int(math.ceil(math.log10(len(parts_pd) - 1 + 1e-8)))) if len(parts_pd) > 1 else 1
    part_names = [f"/out/part-p{i:03d}.csv" if namefn else f"/out/part-{i:0{width}d}.csv"
                  for i in range(len(parts_pd))]
    if len(parts_pd) > 10 and not single:
        out.probe("more_than_ten_part_files")
    if stale:
        out.probe("stale_target_files")
        junk = ("stale,content\n" * 40).encode()
        for nm in ["/out/all.csv"] if single else part_names:
            simfs.put("simfs:/" + nm, junk)
    runs, digests = [], []
    problem = None
    fault_fired = 0
    ropt, block_lt_line = None, False
    try:
        # ---------------- write
        wrun = sr.SimRun(tape, entry=("threaded", "async", "sync")[tape.draw(3, "wentry")], step_cap=100000)
        runs.append(wrun)
        if klass == "io_error" and tape.chance(1, 2, "wfault"):
            with tape.span("fault"):
                simfs.STATE["fault"] = {"op": ("open", "write")[tape.draw(2, "fop")],
                                        "nth": 1 + tape.draw(6, "fnth")}
        target = "simfs://out/all.csv" if single else "simfs://out/part-*.csv"
        kw = {"index": index, "single_file": single}
        if hfpo:
            kw["header_first_partition_only"] = True
        if namefn:
            kw["name_function"] = lambda i: f"p{i:03d}"
        werr = None
        try:
            with wrun:
                written = d.to_csv(target, compute_kwargs={"scheduler": wrun.get}, **kw)
        except OSError as e:
            werr = e
        digests.append(wrun.sim.digest())
        fault_fired += simfs.STATE["fired"]
        if werr is not None:
            if not (klass == "io_error" and simfs.STATE["fired"] and "simulated I/O error" in str(werr)):
                problem = ("write_raised", f"OSError at {exc_site(werr)}: {werr}")
            # a failed write promises nothing about the files: stop here
        else:
            simfs.STATE["fault"] = None
            fs_paths = sorted(p for p in simfs.SimFS.store if p.startswith("/out/"))
            texts = {p: simfs.get(p).decode() for p in fs_paths}
            if single:
                want = df.to_csv(index=index)
                if list(texts) != ["/out/all.csv"]:
                    problem = ("files_written", f"expected one file, found {list(texts)}")
                elif texts["/out/all.csv"] != want:
                    problem = ("single_file_content",
                               f"file content {texts['/out/all.csv']!r} != pandas.to_csv {want!r}")
            else:
                names = part_names
                if sorted(texts) != sorted(names):
                    problem = ("files_written", f"expected {names}, found {sorted(texts)}")
                else:
                    for i, (nm, p) in enumerate(zip(names, parts_pd)):
                        wantp = p.to_csv(index=index, header=(i == 0 or not hfpo))
                        if texts[nm] != wantp:
                            problem = ("partition_file_content",
                                       f"{nm}: {texts[nm]!r} != pandas.to_csv of the partition {wantp!r}")
                            break
            if problem is None and simfs.STATE["open_handles"]:
                problem = ("handle_leaked", f"{sorted(simfs.STATE['open_handles'].values())}")
            # ---------------- read back
            if problem is None and n > 0:
                rrun = sr.SimRun(tape, entry=("threaded", "async", "sync", "mp")[tape.draw(4, "rentry")],
                                 step_cap=200000)
                runs.append(rrun)
                if klass == "io_error" and not fault_fired:
                    with tape.span("fault"):
                        simfs.STATE["fault"] = {"op": ("open", "read")[tape.draw(2, "fop")],
                                                "nth": 1 + tape.draw(10, "fnth")}
                        simfs.STATE["counts"] = {}
                if single or hfpo:
                    # one logical file (header only once): read it as one text
                    if single:
                        rpaths = "simfs://out/all.csv"
                        whole = texts["/out/all.csv"]
                    else:
                        rpaths = None
                        whole = "".join(texts[nm] for nm in names)
                else:
                    rpaths = ["simfs:/" + nm for nm in names]
                    whole = None
                    if blocksize is not None and len(rpaths) >= 2 and tape.chance(1, 3, "zero_byte_file"):
                        # a zero-byte file among the inputs (not first): it contributes no rows
                        out.probe("zero_byte_file_among_inputs")
                        simfs.put("simfs://out/zz-empty.csv", b"")
                        rpaths.insert(1 + tape.draw(len(rpaths) - 1, "zpos"), "simfs://out/zz-empty.csv")
                    elif not namefn and tape.chance(1, 2, "glob"):
                        # read the directory back through the pattern it was written with: the files
                        # come in name order, which has to be the partition order
                        rpaths = "simfs://out/part-*.csv"
                        out.probe("read_back_through_glob")
                rerr = None
                got = None
                if rpaths is not None:
                    rkw = {"blocksize": blocksize}
                    pkw = {}
                    if index:
                        pkw["index_col"] = False
                    # reader options that must not change which rows come back
                    ropt = tape.weighted([(3, "default"), (1, "header0"), (2, "names_header0"),
                                          (1, "usecols"), (2, "skipfooter")], "ropt")
                    if ropt == "skipfooter" and not single:
                        ropt = "default"
                    first_text = whole if whole is not None else texts[names[0]]
                    filecols = list(pd.read_csv(io.StringIO(first_text), nrows=0, **pkw).columns)
                    back = None
                    if ropt == "header0":
                        pkw["header"] = 0
                    elif ropt == "names_header0":
                        pkw["header"] = 0
                        pkw["names"] = [f"c{j}" for j in range(len(filecols))]
                        back = dict(zip(pkw["names"], filecols))
                        out.probe("read_names_header")
                    elif ropt == "usecols":
                        keep = [c for c in filecols if c in ("i", "f", "s") and tape.chance(2, 3, "keep")]
                        pkw["usecols"] = keep or ["i"]
                    elif ropt == "skipfooter":
                        # a trailer line after the data, dropped by skipfooter=1 (python engine): only
                        # the task of the LAST block may apply it, whatever order the blocks run in
                        # (the trailer repeats the first data row, so that dask's dtype inference from
                        # the head sample, which may cover the whole small file, is not disturbed)
                        whole = whole + df.iloc[:1].to_csv(index=index, header=False)
                        simfs.put(rpaths, whole.encode())
                        pkw["skipfooter"] = 1
                        pkw["engine"] = "python"
                        out.probe("read_skipfooter")
                        block_lt_line = blocksize is not None and any(
                            len(ln.encode()) + 1 > blocksize for ln in whole.split("\n"))
                    rkw.update(pkw)
                    try:
                        with rrun:
                            ddf = dd.read_csv(rpaths, **rkw)
                            got = ddf.compute(scheduler=rrun.get)
                    except OSError as e:
                        rerr = e
                    digests.append(rrun.sim.digest())
                    fault_fired += simfs.STATE["fired"]
                    if rerr is not None:
                        if not (klass == "io_error" and simfs.STATE["fired"]
                                and "simulated I/O error" in str(rerr)):
                            problem = ("read_raised", f"OSError at {exc_site(rerr)}: {rerr}")
                    else:
                        if whole is not None:
                            ref = pd.read_csv(io.StringIO(whole), **pkw)
                        else:
                            ref = pd.concat([pd.read_csv(io.StringIO(texts[nm]), **pkw) for nm in names])
                        a = got.reset_index(drop=True)
                        b = ref.reset_index(drop=True)
                        if back is not None and list(a.columns) == list(b.columns):
                            a = a.rename(columns=back)
                            b = b.rename(columns=back)
                        if list(a.columns) != list(b.columns) or len(a) != len(b):
                            problem = ("read_shape", f"read_csv(blocksize={blocksize}) columns/rows "
                                                     f"{list(a.columns)}/{len(a)} != pandas {list(b.columns)}/{len(b)}")
                        else:
                            for c in a.columns:
                                x = a[c].astype(object).where(a[c].notna(), None).tolist()
                                y = b[c].astype(object).where(b[c].notna(), None).tolist()
                                if x != y:
                                    problem = ("read_values", f"read_csv(blocksize={blocksize}) column {c!r}: "
                                                              f"{x} != pandas.read_csv {y}")
                                    break
                        if problem is None:
                            # round trip against the original frame (ints, exact floats, strings)
                            for c in ("i", "f", "s"):
                                if c not in a.columns:
                                    continue
                                x = a[c].astype(object).where(a[c].notna(), None).tolist()
                                y = df[c].astype(object).where(df[c].notna(), None).tolist()
                                if x != y:
                                    problem = ("round_trip_values", f"column {c!r} after to_csv/read_csv: "
                                                                    f"{x} != original {y}")
                                    break
                    if problem is None and simfs.STATE["open_handles"]:
                        problem = ("handle_leaked", f"{sorted(simfs.STATE['open_handles'].values())}")
    except Exception as e:  # noqa: BLE001
        from sim.pin import HarnessError

        if isinstance(e, HarnessError):
            raise
        problem = ("csv_raised", f"{type(e).__name__} at {exc_site(e)}: {str(e)[:400]}", type(e).__name__)
    finally:
        simfs.STATE["fault"] = None
    out.digest = dg(digests)
    mo = max([r.sim.max_open for r in runs] or [0])
    if mo >= 2:
        out.probe("multi_open")
    if fault_fired:
        out.probe("io_error")
        out.faults["io_error"] = fault_fired
    out.policy = runs[0].policy if runs else "none"
    out.sim_time = float(sum(r.sim.events for r in runs))
    out.nontrivial = sum(1 for p in parts_pd if len(p)) >= 2 and (mo >= 2 or fault_fired > 0)
    if problem:
        extra = {"exc_type": problem[2]} if len(problem) > 2 else {}
        out.violate(problem[0], f"{problem[1]} ({ {k: v for k, v in wl.items() if k != 'frame'} })",
                    single_file=single, blocksize_none=blocksize is None, reader_option=ropt,
                    block_smaller_than_a_line=block_lt_line, **extra)
    return out

#!/venv/bin/python
"""Confirm a sub-agent's change in its scratch worktree and file it under /verif/seeded/.

usage: tools/confirm_seed.py <worktree> <i> <property> <seeded-id> --tests <pytest args...>
         [--what TEXT] [--needs TEXT] [--checks C01,C02]

Steps (all inside the scratch worktree, never /repo): clean checkout; demo must exit 0;
apply mutant<i>.diff; demo must exit non-zero; the given tests must pass with the change;
revert.  Then copy patch/demo/meta into /verif/seeded/<seeded-id>/."""
import argparse
import json
import os
import shutil
import subprocess
import sys

HERE = os.path.dirname(os.path.dirname(os.path.abspath(__file__)))
PY = "/venv/bin/python"


def sh(cmd, cwd, timeout=1800):
    env = dict(os.environ, PYTHONPATH=cwd, PYTHONDONTWRITEBYTECODE="1")
    return subprocess.run(cmd, cwd=cwd, capture_output=True, text=True, timeout=timeout, env=env)


def main():
    ap = argparse.ArgumentParser()
    ap.add_argument("wt")
    ap.add_argument("i")
    ap.add_argument("property")
    ap.add_argument("sid")
    ap.add_argument("--tests", nargs="+", required=True)
    ap.add_argument("--what", default="")
    ap.add_argument("--needs", default="")
    ap.add_argument("--checks", default="")
    ap.add_argument("--allow-fail", default="", help="substring of test ids allowed to fail (pre-existing)")
    a = ap.parse_args()
    wt = a.wt
    diff, demo, meta = (os.path.join(wt, f"{n}{a.i}.{e}") for n, e in
                        (("mutant", "diff"), ("demo", "py"), ("meta", "txt")))
    log = {}
    sh(["git", "checkout", "--", "."], wt)
    r = sh([PY, demo], wt)
    log["demo_without_change"] = r.returncode
    if r.returncode != 0:
        print("FAIL: demo does not pass on the clean tree\n" + (r.stdout + r.stderr)[-1500:])
        return 1
    r = sh(["git", "apply", diff], wt)
    if r.returncode != 0:
        print("FAIL: patch does not apply\n" + r.stderr)
        return 1
    try:
        chk = sh([PY, "-c", "import dask; print(dask.__file__)"], wt)
        if wt not in chk.stdout:
            print("FAIL: dask not imported from the worktree: " + chk.stdout)
            return 1
        r = sh([PY, demo], wt)
        log["demo_with_change"] = r.returncode
        if r.returncode == 0:
            print("FAIL: demo passes although the change is applied")
            return 1
        log["demo_output_tail"] = (r.stdout + r.stderr)[-400:]
        r = sh([PY, "-m", "pytest", "-q", "-p", "no:cacheprovider", "-rf", "--color=no", "--timeout=900",
                *a.tests], wt, timeout=3600)
        tail = [ln for ln in r.stdout.splitlines() if ln.strip()][-1] if r.stdout.strip() else ""
        log["tests"] = {"args": a.tests, "returncode": r.returncode, "summary": tail}
        if r.returncode != 0:
            failed = [ln for ln in r.stdout.splitlines() if ln.startswith("FAILED") or " FAILED" in ln]
            if not (a.allow_fail and failed and all(a.allow_fail in f for f in failed)):
                print("FAIL: tests fail with the change\n" + r.stdout[-2500:])
                return 1
    finally:
        sh(["git", "checkout", "--", "."], wt)
    dst = os.path.join(HERE, "seeded", a.sid)
    os.makedirs(dst, exist_ok=True)
    shutil.copy(diff, os.path.join(dst, "patch.diff"))
    shutil.copy(demo, os.path.join(dst, "demo.py"))
    desc = open(meta).read() if os.path.exists(meta) else ""
    with open(os.path.join(dst, "meta.json"), "w") as f:
        json.dump({"property": a.property, "what": a.what, "needs": a.needs,
                   "checks": [c for c in a.checks.split(",") if c] or [a.property],
                   "author": "independent sub-agent (saw only the property text and a scratch worktree)",
                   "author_notes": desc, "confirmed": log}, f, indent=1)
    print("OK", a.sid, json.dumps(log)[:300])
    return 0


if __name__ == "__main__":
    sys.exit(main())

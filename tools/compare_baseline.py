#!/usr/bin/env python3
"""Compare a junit xml of the repository's test suite with /root/.vp/BASELINE.json:
every test in stable_pass must still pass."""
import json
import sys
import xml.etree.ElementTree as ET

base = json.load(open("/root/.vp/BASELINE.json"))
stable = set(base["stable_pass"])
tree = ET.parse(sys.argv[1])
passed, failed = set(), set()
for tc in tree.iter("testcase"):
    tid = f"{tc.get('classname')}::{tc.get('name')}"
    bad = any(ch.tag in ("failure", "error") for ch in tc)
    skipped = any(ch.tag == "skipped" for ch in tc)
    if bad:
        failed.add(tid)
    elif not skipped:
        passed.add(tid)
missing = sorted(stable - passed)
print(f"stable_pass={len(stable)} passed_now={len(passed)} failed_now={len(failed)} "
      f"stable tests not passing now={len(missing)}")
for m in missing[:40]:
    print("  ", m, "(FAILED)" if m in failed else "(not run/skipped)")
sys.exit(1 if missing else 0)

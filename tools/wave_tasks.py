#!/venv/bin/python
"""Write TASK.txt / PROPERTY.txt for a new wave of independent sub-agents.

usage: tools/wave_tasks.py <prefix>        e.g. /tmp/w4   (worktrees /tmp/w4-<ID> must exist)

Each agent sees only: the property text, its own scratch worktree, and a list of the changes
earlier agents already produced (so that it looks elsewhere).  Nothing of the checks is shown."""
import glob
import json
import os
import sys

HERE = os.path.dirname(os.path.dirname(os.path.abspath(__file__)))

HEAD = """You are working in a scratch git worktree of the dask repository (a Python parallel-computing library) at {WT}. Work ONLY inside {WT}; never read or touch /repo or /verif. No network access. Python is /venv/bin/python; run it from inside the worktree or with PYTHONPATH={WT} and verify with `python -c "import dask; print(dask.__file__)"` that dask is imported from the worktree. Run tests with `cd {WT} && /venv/bin/python -m pytest -q -p no:cacheprovider <files>`. Never use `git stash` (the stash is shared between worktrees): to test the clean tree save your change with `git diff > {WT}/mutant1.diff`, run `git checkout -- .`, and re-apply with `git apply mutant1.diff`.
{ENV}
The file {WT}/PROPERTY.txt states a semantic property of dask that must always hold (read it first).

Task: make ONE change to {FILES} that BREAKS this property (as stated there — re-read the statement and make sure your demonstration shows a violation of one of its sentences) while the existing tests still pass ({TESTS}; say which you ran, with pass counts). The change must look like something a developer could plausibly commit (a refactor, an optimisation, a "fix"), must need something SPECIFIC to manifest (a particular input shape, schedule/interleaving, injected fault, call history or configuration) and must NOT be exposed by {TRIVIAL}.

Earlier rounds already produced the following changes — do something of a DIFFERENT kind, in a different code path or triggered by a different kind of condition:
{DONE}
Think about: code paths the listed changes never touched; conditions such as concurrency between two callers, exceptions/faults arriving at an awkward moment, repeated calls on the same objects, caches, optional arguments nobody passes, unusual-but-legal argument types, boundary sizes, and interactions between two features.

Deliver inside {WT}:
 - mutant1.diff: `git diff` of the source change only (no test files), applying to a clean checkout (`git apply --check`).
 - demo1.py: a small standalone program exiting non-zero (assert failure) WITH the change and 0 WITHOUT it; deterministic (for schedule-dependent bugs drive the graph with a custom get/Executor that picks a legal order, or hand-step threads with Events; in-process only; add a watchdog so a hang becomes a failure). Verify both directions yourself.
 - meta1.txt: 5-10 lines: what the change does, which sentence of the property it breaks, why existing tests miss it, exactly what is needed for it to manifest, which tests you ran.
Finish with `git checkout -- .` (untracked deliverables stay). In your final answer summarise the mutant in a few lines."""

DF_ENV = """
IMPORTANT environment quirk: `pyarrow` is not installed and `import dask.dataframe` needs it to be importable. A permissive import stub is at /tmp/pyarrow_stub. Every script of yours that uses dask.dataframe must start with:
    import sys
    import pandas, numpy            # BEFORE the stub is put on the path
    sys.path.append('/tmp/pyarrow_stub')
    import dask
    dask.config.set({'dataframe.convert-string': False})
    import dask.dataframe as dd
With it from_pandas/from_delayed, shuffle, set_index, sort_values, drop_duplicates, unique, nunique, to_csv/read_csv run real dask code on pandas 3; parquet/arrow strings do not. Use int/float columns, categoricals and pandas' native `str` dtype for strings. The dataframe test-suite cannot be collected without real pyarrow, so for dataframe code "the existing tests pass" means the listed non-dataframe tests pass AND the sanity script described below still prints OK with your change.
"""

S = {
    "C01": dict(FILES="dask/local.py, dask/threaded.py, dask/multiprocessing.py or dask/core.py",
                TESTS="dask/tests/test_local.py test_threaded.py test_multiprocessing.py test_core.py test_task_spec.py",
                TRIVIAL="`dask.get({'a': 1, 'b': (inc, 'a')}, 'b')` or a small delayed sum under the threaded scheduler"),
    "C02": dict(FILES="dask/local.py, dask/optimization.py or dask/core.py",
                TESTS="dask/tests/test_local.py test_threaded.py test_multiprocessing.py test_core.py test_optimization.py",
                TRIVIAL="a linear chain or a single diamond computed once with the threaded scheduler"),
    "C03": dict(FILES="dask/local.py (start_state_from_dask, finish_task, release_data, get_async)",
                TESTS="dask/tests/test_local.py test_threaded.py test_multiprocessing.py test_callbacks.py dask/diagnostics/tests",
                TRIVIAL="get of one sink key on a small diamond"),
    "C04": dict(FILES="dask/local.py or dask/multiprocessing.py",
                TESTS="dask/tests/test_local.py test_threaded.py test_multiprocessing.py test_callbacks.py",
                TRIVIAL="a task raising ValueError('x') under the threaded scheduler"),
    "C05": dict(FILES="dask/callbacks.py or the callback handling in dask/local.py",
                TESTS="dask/tests/test_callbacks.py test_local.py test_threaded.py dask/diagnostics/tests",
                TRIVIAL="`with Callback(pretask=f): dask.get(dsk, key)`"),
    "C12": dict(FILES="dask/tokenize.py",
                TESTS="dask/tests/test_tokenize.py dask/tests/test_base.py dask/tests/test_delayed.py (test_tokenize_pandas_arrow_strings fails on a clean checkout too: pyarrow is missing)",
                TRIVIAL="`tokenize([1, 'a', {'b': 2}]) == tokenize([1, 'a', {'b': 2}])`"),
    "C14": dict(FILES="dask/base.py (compute, persist, optimize, unpack_collections, collections_to_expr) or dask/_expr.py",
                TESTS="dask/tests/test_base.py test_delayed.py dask/bag/tests/test_bag.py -k 'compute or persist or optimize'",
                TRIVIAL="`dask.compute(x, y)` on two arrays"),
    "C16": dict(FILES="dask/graph_manipulation.py, dask/highlevelgraph.py or dask/blockwise.py",
                TESTS="dask/tests/test_graph_manipulation.py test_highgraph.py dask/array/tests/test_atop.py",
                TRIVIAL="`clone(x).compute()` or `wait_on(x).sum().compute()` on one array"),
    "C17": dict(FILES="dask/config.py",
                TESTS="dask/tests/test_config.py (test_collect_yaml_permission_errors fail on a clean checkout too when run as root)",
                TRIVIAL="`with dask.config.set({'x': 1}): assert dask.config.get('x') == 1` followed by a check that x is gone"),
    "C28": dict(FILES="dask/array/random.py", TESTS="dask/array/tests/test_random.py",
                TRIVIAL="`da.random.default_rng(0).random(5, chunks=5).compute()` twice being equal"),
    "C29": dict(FILES="dask/array/core.py (store, load_store_chunk, insert_to_ooc, to_npy_stack/from_npy_stack) or dask/utils.py (SerializableLock)",
                TESTS="dask/array/tests/test_array_core.py -k 'store or lock or npy'  and dask/tests/test_utils.py",
                TRIVIAL="`da.store(x, np_target)` with one source and the default lock"),
    "C40": dict(FILES="dask/dataframe/dask_expr/_shuffle.py, dask/dataframe/shuffle.py or dask/dataframe/partitionquantiles.py",
                TESTS="dask/tests/test_base.py dask/tests/test_local.py dask/array/tests/test_shuffle.py dask/bag/tests/test_bag.py -k 'groupby or shuffle'",
                TRIVIAL="the sanity script: 40-row frame with an int key with duplicates and a second column, dd.from_pandas(df, npartitions=4); for shuffle_method in ('tasks','disk') with scheduler='sync': shuffle('k') preserves the rows and keeps equal keys together, sort_values('k') equals pandas (compute partition-wise with dask.compute(*d.to_delayed())), set_index('k') equals pandas' sorted index, drop_duplicates(subset=['k']) has pandas' key set",
                ENV=DF_ENV),
    "C47": dict(FILES="dask/dataframe/io/csv.py and/or dask/bytes/core.py", TESTS="dask/bytes/tests dask/bag/tests/test_text.py",
                TRIVIAL="the sanity script: 30-row frame (int, float, string columns), d = dd.from_pandas(df, npartitions=3); in a temp dir (a) d.to_csv(dir+'/out-*.csv', index=False) writes 3 files whose pandas.read_csv concatenation equals df; (b) d.to_csv(dir+'/single.csv', single_file=True, index=False) equals df.to_csv(index=False) with scheduler='sync'; (c) dd.read_csv(dir+'/single.csv').compute() equals pandas.read_csv, also with blocksize=200. (Parquet does not work here: CSV half of the property only.)",
                ENV=DF_ENV),
    "C48": dict(FILES="dask/bag/core.py and/or dask/bag/chunk.py", TESTS="the whole dask/bag/tests/test_bag.py",
                TRIVIAL="`db.from_sequence(range(10), npartitions=2).map(inc).compute()`"),
    "C49": dict(FILES="dask/bag/random.py and/or Bag.random_sample / random_state_data_python in dask/bag/core.py",
                TESTS="dask/bag/tests/test_random.py and dask/bag/tests/test_bag.py  (note: `sample(b, k)` with k larger than the population raises ValueError and a test pins that — leave it alone). Since sampling is random say in meta1.txt how often the bug shows per draw for a fitting input (should be > 5 %); demo1.py may loop over random.seed(i)",
                TRIVIAL="`sample(db.from_sequence(range(10), npartitions=2), 3)`"),
    "C50": dict(FILES="dask/bytes/core.py and/or dask/bag/text.py", TESTS="dask/bytes/tests dask/bag/tests/test_text.py",
                TRIVIAL="reading a 3-line file with default arguments (restrict yourself to delimiters that do not overlap themselves, e.g. '\\n', '|', 'ab', '\\r\\n')"),
    "C52": dict(FILES="dask/diagnostics/profile.py (class Profiler only — the statement is about Profiler rows: one per executed task, start <= end) OR dask/cache.py (Cache)",
                TESTS="dask/diagnostics/tests dask/tests/test_cache.py test_callbacks.py test_local.py  (the `cachey` package is NOT installed; for a Cache mutant put a tiny fake `cachey` module into sys.modules in your demo: `nbytes(obj)` and a class `Cache(available_bytes)` with a `.data` dict and `.put(key, value, cost, nbytes)`)",
                TRIVIAL="a single `with Profiler() as p: get(dsk, key)`"),
    "C53": dict(FILES="dask/utils.py (SerializableLock)", TESTS="dask/tests/test_utils.py dask/tests/test_threaded.py",
                TRIVIAL="`a = SerializableLock('x'); b = pickle.loads(pickle.dumps(a)); with a: assert not b.acquire(False)`"),
}


def main():
    prefix = sys.argv[1]
    props = {json.loads(l)["id"]: json.loads(l) for l in open(os.path.join(HERE, "properties.jsonl"))}
    done = {}
    for mf in sorted(glob.glob(os.path.join(HERE, "seeded", "*", "meta.json"))):
        m = json.load(open(mf))
        done.setdefault(m["property"], []).append(f"- {m['what']} (needs: {m['needs']})")
    for pid, v in S.items():
        wt = f"{prefix}-{pid}"
        p = props[pid]
        with open(os.path.join(wt, "PROPERTY.txt"), "w") as f:
            f.write(f"PROPERTY {pid}: {p['title']}\n\nStatement:\n{p['statement']}\n\nMust hold for: "
                    f"{p['quantifier']['text']}\n\nWhy the existing unit tests cannot settle it:\n"
                    f"{p['why_tests_cant']}\n\nAnchored in: {', '.join(p['anchors']['files'])}\nMechanisms: "
                    + "; ".join(m["name"] + " (" + m["where"] + ")" for m in p["anchors"]["mechanism"]) + "\n")
        with open(os.path.join(wt, "TASK.txt"), "w") as f:
            f.write(HEAD.format(WT=wt, ENV=v.get("ENV", ""), FILES=v["FILES"], TESTS=v["TESTS"],
                                TRIVIAL=v["TRIVIAL"], DONE="\n".join(done.get(pid, ["- (none)"]))))
    print("wrote", len(S), "task files")


if __name__ == "__main__":
    main()

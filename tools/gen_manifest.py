#!/venv/bin/python
"""Regenerate /verif/MANIFEST.json from the check modules' META and the tables below."""
import importlib
import json
import os
import sys

HERE = os.path.dirname(os.path.dirname(os.path.abspath(__file__)))
sys.path.insert(0, HERE)
sys.dont_write_bytecode = True

BASELINE_CMD = ("cd /repo && /venv/bin/python -m pytest -ra -q -p no:cacheprovider --timeout=900 "
                "--continue-on-collection-errors")

CLAIMED = {
    "C01": dict(
        technique="deterministic simulation: seeded discrete-event executor (E1) + baton-passed threads (E2) "
                  "under real get_async/threaded.get/multiprocessing.get, reference evaluator oracle",
        text="Seeded search over (graph, request, entry point, worker count, batch size, completion schedule); "
             "every run compares the real scheduler's result with an independent recursive evaluator. "
             "Sampling, not proof: a clean batch is evidence that no schedule/configuration in the sampled "
             "space changes the value.",
        note="Trusted: the harness evaluator and value function (sim/graphgen.py, sim/taskfns.py); tasks are "
             "atomic under E1; OS pools are replaced by the simulated executor (the process boundary is real "
             "cloudpickle in-process); 'exhaustively up to a bounded size' is not attempted (that is model checking).",
        ref="DESIGN.md §4 C01"),
    "C02": dict(
        technique="deterministic simulation (E1/E2) with history oracle over the recorded dispatch/execution log",
        text="Same run space as C01; the recorded history of pretask/posttask callbacks and instrumented task "
             "bodies is checked for exactly-once, only-needed, dependencies-first and argument values.",
        note="Dispatch-level checks use the graph the scheduler was handed (after cull/fuse on the multiprocessing "
             "path); function-level checks use the generated AST. Tasks atomic under E1.",
        ref="DESIGN.md §4 C02"),
    "C03": dict(
        technique="deterministic simulation (E1) with reference retention model compared to real scheduler state "
                  "after every step",
        text="After every scheduler step the real cache/released sets are compared with an independent "
             "retention model (must-hold / may-release); at return the cache must equal the requested keys.",
        note="State is observed through the existing callback seam (callbacks receive `state`). Only the final "
             "cache must be tight, as the statement says; the abstract-model exhaustive part of the quantifier "
             "is model checking and not attempted.",
        ref="DESIGN.md §4 C03"),
    "C04": dict(
        technique="deterministic simulation with fault injection: every needed task body made to raise in turn "
                  "(9 exception kinds incl. BaseException/unpicklable), plus worker crash, refused submit, "
                  "client interrupt, under seeded completion schedules",
        text="Per generated graph every needed task body is a fault site and is made to raise in turn; oracles: "
             "same type (subclass on the multiprocessing path) with the original message, no dependent body "
             "starts, finish callbacks once with failed=True, termination within a step cap. Worker crash / "
             "refused submit / interrupt run classes use a relaxed oracle (raises that error or returns the "
             "right value, never hangs).",
        note="Exception kinds and schedules are sampled per fault site; tasks atomic under E1; tblib absent so "
             "the RemoteException path is the one exercised; one open known finding (unpicklable exception on "
             "the multiprocessing path) is matched narrowly.",
        ref="DESIGN.md §4 C04"),
    "C05": dict(
        technique="deterministic simulation: seeded operation histories (enter/exit/register/unregister/get with "
                  "faults) against a reference model of the active-callback set, gets under simulated schedules",
        text="History-based exploration: after every operation the real Callback.active is compared with the "
             "model (registered ∪ open contexts) and every scheduler call's callback log is checked against "
             "the protocol (start first once, pretask→posttask once per key, finish last once with the right "
             "flag, inactive callbacks silent), including gets that fail, are interrupted, or whose "
             "pretask/posttask callback raises.",
        note="register/unregister are generated only while the callback is not held by an open context; no "
             "exceptions are injected into start/finish callbacks (statement silent).",
        ref="DESIGN.md §4 C05"),
    "C17": dict(
        technique="deterministic simulation of operation histories (nested set/exit, part-way failing sets, gets, "
                  "helpers) against a reference config model with snapshots; E2 slice: concurrent set() calls "
                  "under a simulated config_lock judged against all serial orders",
        text="History-based exploration over nested config.set contexts on private and global config dicts: "
             "exit restores the snapshot taken at the matching enter, a set call that raises leaves the config "
             "equal to the snapshot taken just before (atomicity under a fault inside the call), get under the "
             "other spelling agrees with a reference model, update/merge/collect_env/serialize follow the model.",
        note="Context enter/exit histories are single-threaded; the E2 slice (1 run in 5) lets 2-3 threads issue "
             "persistent set() calls, some failing part-way, with config_lock simulated and dask/config.py "
             "pre-empted at lines, and asks for serializability. The failing-set fault is a dotted path running "
             "through a non-mapping placed first/middle/last in the call; asynchronous exceptions are out of "
             "the statement.",
        ref="DESIGN.md §4 C17"),
    "C52": dict(
        technique="deterministic simulation (E1) with simulated clock and tape-driven cache eviction; profiler "
                  "record compared with the recorded execution history, cached runs compared with the "
                  "reference evaluator",
        text="Profiler rows must equal, one per key that finished, the (key, pretask time, posttask time) "
             "history recorded by the harness under every simulated schedule, across several calls in one "
             "context and with failing tasks; with a Cache active, values over consecutive calls sharing keys "
             "must equal the no-cache values under reuse and arbitrary eviction.",
        note="cachey is absent and stubbed (eviction decided by the tape); default_timer is the simulated clock; "
             "ResourceProfiler/ProgressBar background threads are not simulated.",
        ref="DESIGN.md §4 C52"),
    "C53": dict(
        technique="deterministic simulation (E2 baton-passed real threads, simulated lock) of contention "
                  "histories against a lock-family model",
        text="2-4 simulated threads run tape-generated critical sections over pickled copies of up to 3 lock "
             "families; the model (one holder per family) decides every non-blocking/timed result, locked() "
             "answer and mutual exclusion; deadlock of the simulated threads is a violation.",
        note="threading.Lock inside SerializableLock is replaced by SimLock (wraps a real lock); creation races "
             "are excluded as documented; pre-emption only at lock operations and explicit yield points.",
        ref="DESIGN.md §4 C53"),
    "C29": dict(
        technique="deterministic simulation (E2): chunk writes on baton-passed worker threads into a "
                  "read-modify-write SimTarget, simulated locks, seeded interleavings",
        text="Every load_store_chunk runs on a simulated worker; the target performs read→(pre-empt)→modify→"
             "(pre-empt)→write-back over g-aligned blocks, so a missing, too narrow or per-source lock loses "
             "updates in most interleavings. Oracle: target region == source, bytes outside untouched, no "
             "overlapping writes in flight under a lock, deferred store writes nothing before compute, "
             "returned stored arrays equal the sources, npy stack round trip.",
        note="lock=False is only required to be exact on element-atomic targets (g = 1); NumPy code is not "
             "pre-empted; dtype int64 only.",
        ref="DESIGN.md §4 C29"),
    "C50": dict(
        technique="deterministic simulation with fault injection: SimFS storage (independent handles, every "
                  "open/seek/read/close a scheduling and fault point), E2 worker threads, concurrent clients, "
                  "simulated process boundary, injected OSError",
        text="Blocks from read_bytes must concatenate to the file with every boundary after a delimiter, and "
             "read_text must return the file split after each delimiter for every blocksize, under every "
             "simulated interleaving of handle operations, when two clients compute the same delayed blocks "
             "at once, across the cloudpickle boundary, and must either raise the injected OSError or be "
             "exact when an open/read fails; no handle may stay open.",
        note="SimFS replaces the disk; short reads are not injected (buffered-file contract); one open known "
             "finding (self-overlapping delimiters with a blocksize) is matched narrowly.",
        ref="DESIGN.md §4 C50"),
    "C28": dict(
        technique="deterministic simulation (E1): the same random array computed under different entry points, "
                  "simulated completion schedules, worker counts, pickle boundary, recomputation and a fresh "
                  "interpreter; entropy seam for unseeded generators",
        text="Seeded arrays built twice from fresh generators must have equal names and bit-identical values "
             "across every simulated schedule/scheduler, on recomputation of the same object, and in a fresh "
             "interpreter with another hash seed; unseeded pairs must get distinct names and equal their solo "
             "computation when computed together; choice(replace=False) must return distinct members.",
        note="Nothing is compared with NumPy's own stream; OS entropy is served by the simulator's PRNG through "
             "numpy.random.bit_generator.randbits; tasks atomic under E1.",
        ref="DESIGN.md §4 C28"),
    "C49": dict(
        technique="deterministic simulation (E1) with the global PRNG as randomness seam: tasks draw from it in "
                  "simulated schedule order; reproducibility checked across schedulers, schedules and a fresh "
                  "interpreter",
        text="sample/choices results must be valid (size, sub-multiset / membership) for every simulated "
             "completion order in which tasks consume the global PRNG, for empty partitions, k=0 and k>n; "
             "random_sample with a fixed random_state must return the identical subsequence under three "
             "scheduler/schedule combinations, for an equal separately built bag, and in a fresh interpreter.",
        note="The PRNG is the real Mersenne twister seeded from the run seed; no distributional claim; one open "
             "known finding (sample with k > n raises; a pinned test asserts that) is matched narrowly.",
        ref="DESIGN.md §4 C49"),
    "C16": dict(
        technique="deterministic simulation (E1): happens-before between tagged chunk executions in the recorded "
                  "log under simulated schedules with up to 8 workers, optimisation on/off",
        text="bind/wait_on: the last parent (waited-on) chunk function must end before the first child "
             "(consumer) chunk function starts, under every simulated completion schedule, with and without "
             "graph optimisation/fusion; checkpoint computes to None only after every chunk function ran; "
             "clone computes to the same values with disjoint output keys, independent execution (both copies "
             "run when computed together) and omit respected; values equal the unmanipulated collections.",
        note="array/bag/delayed collections, plus dataframes through the pyarrow import stub (bind/clone/wait_on "
             "on dataframes raise: two open known findings; checkpoint works); chunk executions atomic under E1, "
             "so the order relation is between whole chunk executions.",
        ref="DESIGN.md §4 C16"),
    "C14": dict(
        technique="deterministic simulation (E1): the same nested structure computed under several scheduler "
                  "choices (sync, Executor instance, threaded, multiprocessing with cloudpickle, get_async) and "
                  "simulated schedules, optimize_graph/traverse on/off; persist/optimize followed by compute",
        text="compute must return the identical nesting with every delayed/array/bag collection replaced by the "
             "value of its eager twin, identically for every scheduler choice, simulated completion schedule "
             "and optimize_graph setting; persist/optimize must return the same structure with collections of "
             "the same type and metadata that compute (under yet another schedule) to the same values.",
        note="dataframe collections (expression-backed, mixed with graph-backed ones) run through the pyarrow "
             "import stub, parquet/arrow strings cannot; iterators are single-use so structures "
             "holding one are computed once; tasks atomic under E1.",
        ref="DESIGN.md §4 C14"),
    "C48": dict(
        technique="deterministic simulation (E1): bag pipelines under simulated schedules on sync/threaded/"
                  "get_async/multiprocessing (cloudpickle boundary, fusion on/off), disk shuffle on real partd "
                  "files and multi-stage task shuffle, compared with plain Python",
        text="Each generated pipeline (transforms + one terminal operation over partitions that may be empty) "
             "is computed under two independently drawn scheduler/schedule combinations and must equal the "
             "plain-Python reference (multisets where bags promise no order). The schedule and process-"
             "boundary dimensions are what expose lazily evaluated partitions reaching two consumers or "
             "crossing the boundary un-reified, and disk-shuffle barrier mistakes.",
        note="partd is real but not fault-injected; element type is small ints (tuples/dicts inside pipelines); "
             "tasks atomic under E1.",
        ref="DESIGN.md §4 C48"),
    "C12": dict(
        technique="deterministic simulation (E2): baton-passed threads pre-empted by sys.settrace at lines of "
                  "dask/tokenize.py and at the simulated tokenize_lock; fresh interpreters with other hash seeds",
        text="PARTIAL: decides that a token does not depend on what other threads tokenize concurrently, on "
             "what was tokenized (or failed to tokenize) before in the process, on deep copies / pickle round "
             "trips, or (plain data) on the interpreter's hash seed. Every token produced by 2-4 pre-empted "
             "simulated threads is compared with the token of the same value in the quiescent interpreter; "
             "_SEEN and the ContextVar must be restored. Collision-freeness ('different values get different "
             "tokens') is input search and is NOT addressed by this technique.",
        note="tokenize_lock is replaced by a simulated re-entrant lock; pre-emption is at Python line granularity "
             "inside dask/tokenize.py only (C code such as pickle/hashing is atomic).",
        ref="DESIGN.md §4 C12"),
    "C40": dict(
        technique="deterministic simulation (E1): dataframe shuffle/sort/set_index/de-duplication built and "
                  "computed under simulated schedulers and completion schedules; disk shuffle on real partd "
                  "files (appends, barrier, collects are scheduling events), multi-stage task shuffle",
        text="shuffle must preserve the multiset of rows and put all rows of a key in one output partition; "
             "sort_values/set_index must equal pandas' order (ties as multisets) with truthful divisions; "
             "drop_duplicates/unique/nunique must equal pandas — under every simulated schedule, worker count "
             "and entry point including the cloudpickle boundary, for empty partitions, NA/string/categorical "
             "keys, both shuffle methods and max_branch forcing multi-stage task shuffles.",
        note="pyarrow is absent: a permissive import stub is used and arrow strings/parquet cannot run; a run "
             "whose exception follows a call into the stub is discarded and counted; partd is not "
             "fault-injected; p2p shuffle needs distributed.",
        ref="DESIGN.md §4 C40"),
    "C47": dict(
        technique="deterministic simulation with fault injection (E1 + SimFS): to_csv / read_csv under simulated "
                  "schedulers and completion schedules, injected OSError at the k-th open/read/write",
        text="PARTIAL (CSV only; parquet cannot run without pyarrow and is not claimed): single_file output "
             "must equal pandas.to_csv of the whole frame for every completion schedule (the appends are "
             "separate tasks chained only by depend_on), per-partition files must equal the partitions' "
             "to_csv, read_csv(blocksize down to 8 bytes or None) must equal pandas.read_csv of the same text "
             "including quoted fields near block boundaries, the round trip must reproduce ints, exact floats "
             "and strings; with an injected I/O error the call raises that error or is exact; no handle leaks.",
        note="SimFS replaces the disk; the read oracle is pandas.read_csv of the written text; embedded newlines "
             "only with blocksize=None; no NA in integer columns (documented dtype-inference limitation).",
        ref="DESIGN.md §4 C47"),
}

NA = {
    "C06": "order() is a pure function of the graph; no schedule, clock, fault or history for a simulator to control",
    "C07": "toposort/getcycle/isdag are pure functions of the graph",
    "C08": "legacy->task-spec conversion, execution and pickling of a node are pure functions of the graph",
    "C09": "each low-level optimisation is a pure function of (graph, keys, parameters)",
    "C10": "HLG culling / blockwise fusion / annotation merging are pure functions of (layers, keys)",
    "C11": "equality/hash/token vs value of two nodes is a pure relation on inputs",
    "C13": "key distinctness is a pure function of the inputs (collision search = input generation); the shared-"
           "intermediate facet of computing together is exercised under C14/C01/C03",
    "C15": "a delayed program's value and key are pure functions of the program",
    "C18": "pure string/number helper functions",
    "C19": "equality with NumPy for every (array, chunking, args) is a pure function; nothing to schedule or fault",
    "C20": "pure function of (array, chunking, index)",
    "C21": "pure function of (array, chunking, index, value)",
    "C22": "pure function of (array, chunking, axis, split_every)",
    "C23": "pure function of (shape, chunk spec) / (array, target chunks)",
    "C24": "pure function of (array, chunking, arguments)",
    "C25": "metadata vs computed data is a pure function of the program",
    "C26": "pure function of (array, chunking, depth, boundary)",
    "C27": "pure function of (array, chunking, arguments)",
    "C30": "expression-engine result is a pure function of the program; a config flag in a fresh interpreter is not a schedule",
    "C31": "pure function of (matrices, chunking)",
    "C32": "pure function of (data, chunking, q)",
    "C33": "pure function of (data, mask, chunking)",
    "C34": "pure function of creation arguments",
    "C35": "block alignment / block_info are functions of the block index, not of execution order",
    "C36": "equality with pandas for every (frame, partitioning, program) is pure",
    "C37": "pure function of (frame, partitioning, reduction)",
    "C38": "pure function of (frame, partitioning, grouping); its disk-shuffle ingredient is decided under C40",
    "C39": "pure function of (frames, partitionings, join arguments)",
    "C41": "divisions truthfulness is a pure function of the construction path and data",
    "C42": "meta vs computed result is a pure function of the program",
    "C43": "optimizer equivalence/convergence is a pure function of the expression",
    "C44": "pure function of (frame, partitioning, target layout)",
    "C45": "pure function of the sorted sequence and parameters",
    "C46": "pure function of (frame, partitioning, window arguments)",
    "C51": "matcher soundness/completeness is a pure function of (rules, term)",
}

PENDING_REASON = ("claimed in DESIGN.md but its check is not implemented yet in this snapshot; "
                  "listed here until the check lands")


try:
    ADDENDA = json.load(open(os.path.join(HERE, "checks", "extra_gates.json"))).get("rule_addenda", {})
except FileNotFoundError:
    ADDENDA = {}


def main():
    props = [json.loads(l) for l in open(os.path.join(HERE, "properties.jsonl"))]
    ids = [p["id"] for p in props]
    checks, na = [], []
    extra = json.load(open(os.path.join(HERE, "tools", "claimed_extra.json"))) \
        if os.path.exists(os.path.join(HERE, "tools", "claimed_extra.json")) else {}
    claimed = dict(CLAIMED)
    claimed.update(extra)
    for pid in ids:
        path = os.path.join(HERE, "checks", pid.lower() + ".py")
        if pid in claimed and os.path.exists(path):
            mod = importlib.import_module("checks." + pid.lower())
            c = claimed[pid]
            checks.append({
                "property_id": pid,
                "quick_cmd": f"./check {pid} --tier quick",
                "thorough_cmd": f"./check {pid} --tier thorough",
                "evidence_file": f"/verif/evidence/{pid}.json",
                "replay_cmd_template": f"./check {pid} --replay {{path}}",
                "engine": "dask-sim",
                "level_claimed": {"category": mod.META.get("level", "exploration"),
                                  "text": c["text"],
                                  "design_ref": c["ref"] + "; current workload: DESIGN.md §12.10"},
                "level_note": c["note"] + " What one evaluation generates now: " + mod.META["rule"]
                + ("; later additions: " + ADDENDA[pid] if pid in ADDENDA else ""),
                "technique": c["technique"],
            })
        elif pid in NA:
            na.append({"property_id": pid, "reason": NA[pid]})
        else:
            na.append({"property_id": pid, "reason": PENDING_REASON})
    man = {
        "version": 1,
        "setup_cmd": "/venv/bin/python /verif/tools/setup_check.py",
        "hooks": {
            "guard": "VERIF_DASK_SIM",
            "enable": "no hook exists in /repo and the variable is read by nothing (a DASK_* name would be "
                      "collected into dask.config): every seam is an argument (submit=/pool=/scheduler=/lock=/targets) or a "
                      "module-level name patched from /verif (dask.local.queue_get, dask.utils.Lock, "
                      "dask.tokenize.tokenize_lock, default_timer, uuid, numpy entropy); checks import dask "
                      "from /repo's working tree via sys.path",
            "baseline_off_cmd": BASELINE_CMD,
            "source_commits": [],
            "add_only": True,
        },
        "engines": [{
            "name": "dask-sim", "path": "/verif/sim",
            "serves_properties": [c["property_id"] for c in checks],
            "kind_free_text": "deterministic simulation with fault injection: choice tape (one seed = one run), "
                              "E1 single-threaded discrete-event executor behind dask.local.get_async, E2 "
                              "baton-passed real threads with simulated locks/pools/storage, tape shrinking, "
                              "fresh-interpreter replay",
        }],
        "checks": checks,
        "not_applicable": na,
        "notes": "Exit codes of every check: 0 held, 1 VIOLATION (replayed in a fresh interpreter), 2 harness "
                 "error. fix: commits in /repo are listed in known_findings.json. See DESIGN.md.",
    }
    with open(os.path.join(HERE, "MANIFEST.json"), "w") as f:
        json.dump(man, f, indent=1)
        f.write("\n")
    print(f"{len(checks)} checks, {len(na)} not_applicable")


if __name__ == "__main__":
    main()

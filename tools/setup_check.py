#!/venv/bin/python
"""MANIFEST.setup_cmd: nothing to build (pure Python); verify that everything the
checks import is present offline and that dask is importable from /repo."""
import os
import sys

HERE = os.path.dirname(os.path.dirname(os.path.abspath(__file__)))
sys.path.insert(0, HERE)
sys.dont_write_bytecode = True
from sim import pin  # noqa: E402

dask = pin.setup_repo()
import cloudpickle, fsspec, numpy, pandas, partd, tlz  # noqa: E401,E402,F401

os.makedirs(os.path.join(HERE, "evidence"), exist_ok=True)
os.makedirs(os.path.join(HERE, "replays"), exist_ok=True)
print("setup ok: dask", dask.__version__, "from", os.path.dirname(dask.__file__),
      "numpy", numpy.__version__, "pandas", pandas.__version__)

#!/venv/bin/python
"""Run the registered checks against every seeded change under /verif/seeded/<id>/
(patch.diff applied to a scratch copy of /repo, never to /repo itself) and
regenerate /verif/seeded/README.md with the detection table.

usage: selftest/seeded.py [<seeded id> ...] [--tier quick] [--also C01,C02]
"""
import argparse
import json
import os
import re
import subprocess
import sys

HERE = os.path.dirname(os.path.dirname(os.path.abspath(__file__)))
SEEDED = os.path.join(HERE, "seeded")


def main():
    ap = argparse.ArgumentParser()
    ap.add_argument("ids", nargs="*")
    ap.add_argument("--tier", default="quick")
    ap.add_argument("--seed", default="0")
    a = ap.parse_args()
    ids = a.ids or sorted(d for d in os.listdir(SEEDED) if os.path.isdir(os.path.join(SEEDED, d)))
    results_path = os.path.join(SEEDED, "results.json")
    results = json.load(open(results_path)) if os.path.exists(results_path) else {}
    results = {k: v for k, v in results.items() if os.path.isdir(os.path.join(SEEDED, k))}   # dropped seeds
    for sid in ids:
        d = os.path.join(SEEDED, sid)
        meta = json.load(open(os.path.join(d, "meta.json")))
        checks = meta.get("checks") or [meta["property"]]
        r = subprocess.run([os.path.join(HERE, "selftest", "mutant.py"), os.path.join(d, "patch.diff"),
                            *checks, "--tier", a.tier, "--seed", a.seed], capture_output=True, text=True)
        line = [ln for ln in r.stdout.splitlines() if ln.startswith("RESULT ")]
        oracles = re.findall(r"oracle=([a-z_0-9]+)", r.stdout)
        res = dict(kv.split("=") for kv in line[0].split()[1:]) if line else {}
        results[sid] = {"property": meta["property"], "tier": a.tier, "seed": a.seed,
                        "exit_codes": res, "oracles": sorted(set(oracles)),
                        "needs": meta.get("needs", ""), "what": meta.get("what", "")}
        print(sid, res, sorted(set(oracles)))
        if not line:
            print(r.stdout[-1500:], r.stderr[-500:])
    with open(results_path, "w") as f:
        json.dump(results, f, indent=1, sort_keys=True)
    rows = ["# Seeded changes and what catches them", "",
            "Each directory holds `patch.diff` (a change to dask/dask that breaks the property while the pinned "
            "suite still passes), the sub-agent's demonstration (`demo.py`, fails with the change, passes "
            "without), and `meta.json`. None of these patches is ever applied to /repo; `selftest/seeded.py` "
            "applies them to a scratch copy.", "",
            "| id | property | what it breaks / needs | checks run (exit code: 1 = VIOLATION reported) | oracles that fired |",
            "|---|---|---|---|---|"]
    for sid in sorted(results):
        r = results[sid]
        codes = ", ".join(f"{k}: {v}" for k, v in sorted(r["exit_codes"].items()))
        rows.append(f"| {sid} | {r['property']} | {r['what']} — needs: {r['needs']} | {codes} | "
                    f"{', '.join(r['oracles']) or '-'} |")
    with open(os.path.join(SEEDED, "README.md"), "w") as f:
        f.write("\n".join(rows) + "\n")
    return 0


if __name__ == "__main__":
    sys.exit(main())

#!/venv/bin/python
"""Determinism self-test: every seed is executed twice, in separate fresh
interpreters with different PYTHONHASHSEEDs for the *inner* interpreter pinned
equal (a replay file records its hashseed) and additionally under a different
hashseed; the per-run (status, oracle, event digest, workload digest, tape
length) rows are diffed.

usage: selftest/determinism.py <ID> [<ID> ...] [--n 400] [--procs 8]

Rows must be identical for the same hashseed.  Across hashseeds the rows are
compared too and differences are *reported* (workloads whose event order
legitimately depends on set iteration order are allowed to differ there, but
verdicts must not)."""
import argparse
import json
import os
import shutil
import subprocess
import sys
import tempfile

HERE = os.path.dirname(os.path.dirname(os.path.abspath(__file__)))


def launch(pid, lo, hi, hashseed, out, tier):
    env = dict(os.environ, PYTHONHASHSEED=hashseed, PYTHONDONTWRITEBYTECODE="1")
    args = {"mode": "digests", "property": pid, "tier": tier, "base_seed": 12345,
            "lo": lo, "hi": hi, "out": out}
    wd = os.path.dirname(out)
    return subprocess.Popen([sys.executable, os.path.join(HERE, "check"), "--internal",
                             json.dumps(args)], env=env, cwd=wd,
                            stdout=subprocess.PIPE, stderr=subprocess.STDOUT, text=True)


def main():
    ap = argparse.ArgumentParser()
    ap.add_argument("ids", nargs="+")
    ap.add_argument("--n", type=int, default=400)
    ap.add_argument("--procs", type=int, default=8)
    ap.add_argument("--tier", default="quick")
    ap.add_argument("--isolated", type=int, default=12)
    a = ap.parse_args()
    root = "/dev/shm" if os.path.isdir("/dev/shm") else tempfile.gettempdir()
    rc = 0
    for pid in a.ids:
        scratch = tempfile.mkdtemp(prefix="dask-verif-det-", dir=root)
        try:
            per = max(1, a.n // a.procs)
            jobs = []
            for variant, hs in (("a", "7"), ("b", "7"), ("c", "99")):
                for p in range(a.procs):
                    d = os.path.join(scratch, f"{variant}{p}")
                    os.makedirs(d)
                    out = os.path.join(d, "rows.json")
                    jobs.append((variant, p, out, launch(pid, p * per, (p + 1) * per, hs, out, a.tier)))
            rows = {"a": {}, "b": {}, "c": {}}
            for variant, p, out, proc in jobs:
                so, _ = proc.communicate(timeout=3600)
                if not os.path.exists(out):
                    print(f"{pid}: worker failed\n{so[-2000:]}")
                    rc = 2
                    continue
                for r in json.load(open(out)):
                    if r[0] == "RERUN-DIFF":
                        print(f"   WARM RE-RUN DIFFERENCE (same process, later): {r[1]} vs {r[2]}")
                        rc = 1
                        continue
                    rows[variant][r[0]] = r[1:]
            same = sum(1 for s in rows["a"] if rows["a"][s] == rows["b"].get(s))
            diff_same = [s for s in rows["a"] if rows["a"][s] != rows["b"].get(s)]
            diff_hs = [s for s in rows["a"] if rows["a"][s] != rows["c"].get(s)]
            verdict_hs = [s for s in rows["a"] if rows["a"][s][:2] != (rows["c"].get(s) or [None, None])[:2]]
            print(f"{pid}: {len(rows['a'])} seeds; identical twice (same hashseed): {same}; "
                  f"differ: {len(diff_same)}; differ under another hashseed: {len(diff_hs)} "
                  f"(verdict differs: {len(verdict_hs)})")
            for s in diff_same[:3]:
                print("   NONDETERMINISTIC seed", s, rows["a"][s], rows["b"].get(s))
            for s in diff_hs[:3]:
                print("   hashseed-dependent seed", s, rows["a"][s], rows["c"].get(s))
            if diff_same or verdict_hs:
                rc = 1
            # cold-start check: a seed executed alone, as the first run of a fresh interpreter
            # (what a replay does), must give the same row as in the middle of a batch
            iso_jobs = []
            for i in range(per - 1, per - 1 - a.isolated, -1):
                if i < 0:
                    break
                d = os.path.join(scratch, f"iso{i}")
                os.makedirs(d)
                out = os.path.join(d, "rows.json")
                iso_jobs.append((out, launch(pid, i, i + 1, "7", out, a.tier)))
            iso_bad = 0
            for out, proc in iso_jobs:
                proc.communicate(timeout=3600)
                if not os.path.exists(out):
                    iso_bad += 1
                    continue
                for r in json.load(open(out)):
                    if rows["a"].get(r[0]) != r[1:]:
                        iso_bad += 1
                        print("   COLD-START DIFFERENCE seed", r[0], rows["a"].get(r[0]), r[1:])
            print(f"{pid}: cold-start (seed alone in a fresh interpreter) vs in-batch: "
                  f"{len(iso_jobs)} seeds, {iso_bad} differ")
            if iso_bad:
                rc = 1
        finally:
            shutil.rmtree(scratch, ignore_errors=True)
    return rc


if __name__ == "__main__":
    sys.exit(main())

#!/venv/bin/python
"""Sensitivity self-test: apply a patch to a scratch copy of /repo's working tree and
run checks against it (VERIF_REPO).  The scratch copy lives under /dev/shm and is
removed afterwards.  Evidence/replay files written by such runs are discarded.

usage: selftest/mutant.py <patch.diff> <ID> [<ID> ...] [--tier quick] [--seed N] [--expect-violation]
"""
import argparse
import os
import shutil
import subprocess
import sys
import tempfile

HERE = os.path.dirname(os.path.dirname(os.path.abspath(__file__)))


def main():
    ap = argparse.ArgumentParser()
    ap.add_argument("patch")
    ap.add_argument("ids", nargs="+")
    ap.add_argument("--tier", default="quick")
    ap.add_argument("--seed", default="0")
    ap.add_argument("--jobs", default="16")
    a = ap.parse_args()
    root = "/dev/shm" if os.path.isdir("/dev/shm") else tempfile.gettempdir()
    scratch = tempfile.mkdtemp(prefix="dask-mutant-", dir=root)
    keep = tempfile.mkdtemp(prefix="dask-mutant-ev-", dir=root)
    rc_all = {}
    try:
        subprocess.run(["rsync", "-a", "--exclude", ".git", "--exclude", "__pycache__",
                        "/repo/", scratch + "/"], check=True)
        p = subprocess.run(["patch", "-p1", "-d", scratch, "-i", os.path.abspath(a.patch)],
                           capture_output=True, text=True)
        if p.returncode != 0:
            print("PATCH FAILED\n" + p.stdout + p.stderr)
            return 3
        env = dict(os.environ, VERIF_REPO=scratch)
        for pid in a.ids:
            # evidence and replay files of this run go to the scratch dir, never to /verif
            r = subprocess.run([os.path.join(HERE, "check"), pid, "--tier", a.tier, "--seed", a.seed,
                                "--jobs", a.jobs], env=dict(env, VERIF_OUT_DIR=keep),
                               capture_output=True, text=True, cwd=HERE)
            lines = [l for l in r.stdout.splitlines() if "condarc" not in l]
            print(f"== {pid}: exit {r.returncode}")
            for l in lines[-6:]:
                print("   " + l[:400])
            rc_all[pid] = r.returncode
    finally:
        shutil.rmtree(scratch, ignore_errors=True)
        shutil.rmtree(keep, ignore_errors=True)
    print("RESULT " + " ".join(f"{k}={v}" for k, v in rc_all.items()))
    return 0


if __name__ == "__main__":
    sys.exit(main())

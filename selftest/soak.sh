#!/bin/sh
# Soak: every registered check at several base seeds; prints one line per run.
# usage: selftest/soak.sh "<seeds>" [tier] [ids...]
cd "$(dirname "$0")/.."
SEEDS="${1:-1 2 3}"; TIER="${2:-quick}"; shift 2 2>/dev/null
IDS="${*:-C01 C02 C03 C04 C05 C12 C14 C16 C17 C28 C29 C40 C47 C48 C49 C50 C52 C53}"
for s in $SEEDS; do
  for id in $IDS; do
    out=$(./check "$id" --tier "$TIER" --seed "$s" 2>&1 | grep -v condarc)
    rc=$?
    echo "seed=$s $id $(echo "$out" | grep -E "^\[$id\] tier" | tail -1)"
    echo "$out" | grep -E "VIOLATION|HARNESS-ERROR|oracle=" | head -6
  done
done
echo SOAK-DONE
